(* A reference UTF-8 DECODER written from the bit layout of RFC 3629 (not from the library), and the
   theorem that what `FlatString::push(char)` appends (`utf8_encode`, Model/Ops.v = char::encode_utf8)
   decodes back to the pushed characters: for every list of code points below 0x110000 the
   concatenation of their encodings decodes to exactly that list (so the encoding is injective and
   self-delimiting), and the encoded length is char::len_utf8. *)
From Coq Require Import List NArith Bool Lia ZArith ZifyN ZifyBool ZifyNat.
From Flatty.Model Require Import Base Ty Layout Utf8 Validate View Emplace Ops.
From Flatty.Proofs Require Import EmplaceSpec VecOpsFacts VecTypedFacts.
Import ListNotations.
Open Scope N_scope.

Fixpoint utf8_dec (bs : bytes) : option (list N) :=
  match bs with
  | [] => Some []
  | b0 :: r =>
    if b0 <? 128 then option_map (cons b0) (utf8_dec r)
    else match r with
    | [] => None
    | b1 :: r1 =>
      if b0 <? 224 then option_map (cons ((b0 - 192) * 64 + (b1 - 128))) (utf8_dec r1)
      else match r1 with
      | [] => None
      | b2 :: r2 =>
        if b0 <? 240 then
          option_map (cons ((b0 - 224) * 4096 + (b1 - 128) * 64 + (b2 - 128))) (utf8_dec r2)
        else match r2 with
        | [] => None
        | b3 :: r3 =>
          option_map (cons ((b0 - 240) * 262144 + (b1 - 128) * 4096 + (b2 - 128) * 64 + (b3 - 128)))
                     (utf8_dec r3)
        end
      end
    end
  end.

Definition len_utf8 (c : N) : N :=
  if c <? 128 then 1 else if c <? 2048 then 2 else if c <? 65536 then 3 else 4.

Ltac divmod' x k :=
  let q := fresh "q" in let r := fresh "r" in
  pose proof (N.div_mod' x k); pose proof (N.mod_lt x k ltac:(lia));
  set (q := x / k) in *; set (r := x mod k) in *; clearbody q r.

Ltac ltb_false := match goal with |- context [?a <? ?b] =>
  destruct (N.ltb_spec a b); [lia|] end.
Ltac ltb_true := match goal with |- context [?a <? ?b] =>
  destruct (N.ltb_spec a b); [|lia] end.

Lemma utf8_dec_encode_app c rest : c < 1114112 ->
  utf8_dec (utf8_encode c ++ rest) = option_map (cons c) (utf8_dec rest).
Proof.
  intros Hc. unfold utf8_encode.
  destruct (N.ltb_spec c 128) as [H1|H1].
  { cbn [app utf8_dec]. ltb_true. reflexivity. }
  destruct (N.ltb_spec c 2048) as [H2|H2].
  { divmod' c 64. cbn [app utf8_dec]. ltb_false. ltb_true.
    f_equal. f_equal. lia. }
  destruct (N.ltb_spec c 65536) as [H3|H3].
  { replace (c / 4096) with (c / 64 / 64) by (rewrite N.div_div by lia; reflexivity).
    divmod' c 64. divmod' q 64. cbn [app utf8_dec]. ltb_false. ltb_false. ltb_true.
    f_equal. f_equal. lia. }
  replace (c / 262144) with (c / 64 / 64 / 64) by (rewrite !N.div_div by lia; reflexivity).
  replace (c / 4096) with (c / 64 / 64) by (rewrite N.div_div by lia; reflexivity).
  divmod' c 64. divmod' q 64. divmod' q0 64. cbn [app utf8_dec].
  ltb_false. ltb_false. ltb_false. f_equal. f_equal. lia.
Qed.

Theorem utf8_dec_encode_all cs : Forall (fun c => c < 1114112) cs ->
  utf8_dec (flat_map utf8_encode cs) = Some cs.
Proof.
  induction cs as [|c cs IH]; intros H; [reflexivity|].
  inversion H as [|c' cs' Hc Hcs]; subst. cbn [flat_map].
  rewrite utf8_dec_encode_app by exact Hc. rewrite IH by exact Hcs. reflexivity.
Qed.

Theorem utf8_dec_encode c : c < 1114112 -> utf8_dec (utf8_encode c) = Some [c].
Proof.
  intros Hc. rewrite <- (app_nil_r (utf8_encode c)).
  rewrite utf8_dec_encode_app by exact Hc. reflexivity.
Qed.

Theorem utf8_encode_inj c d : c < 1114112 -> d < 1114112 -> utf8_encode c = utf8_encode d -> c = d.
Proof.
  intros Hc Hd E. pose proof (utf8_dec_encode c Hc) as Ec. rewrite E, (utf8_dec_encode d Hd) in Ec.
  inversion Ec. reflexivity.
Qed.

Theorem utf8_encode_len c : blen (utf8_encode c) = len_utf8 c.
Proof.
  unfold utf8_encode, len_utf8.
  destruct (c <? 128); [reflexivity|]. destruct (c <? 2048); [reflexivity|].
  destruct (c <? 65536); reflexivity.
Qed.

(* the encodings of a list of characters, concatenated, have the summed length *)
Theorem utf8_encode_all_len cs :
  blen (flat_map utf8_encode cs) = fold_right (fun c n => len_utf8 c + n) 0 cs.
Proof.
  induction cs as [|c cs IH]; [reflexivity|]. cbn [flat_map fold_right].
  unfold blen in *. rewrite app_length, Nat2N.inj_add, IH.
  change (N.of_nat (length (utf8_encode c))) with (blen (utf8_encode c)).
  rewrite utf8_encode_len. reflexivity.
Qed.

(* CHARACTER level: a FlatString seen as a sequence of chars with a capacity in BYTES
   (String::push refusing when the encoded char does not fit) *)
Definition chars_len (cs : list N) : N := fold_right (fun c n => len_utf8 c + n) 0 cs.

Definition cspec_step (cap : N) (cs : list N) (op : vop) : list N * oout :=
  match op with
  | SPushChar c => if cap - chars_len cs <? len_utf8 c then (cs, ORefused) else (cs ++ [c], ODone)
  | VClear => ([], ODone)
  | _ => (cs, OBad)
  end.

Definition text_of (cs : list N) : bytes := flat_map utf8_encode cs.

Lemma text_of_app cs ds : text_of (cs ++ ds) = text_of cs ++ text_of ds.
Proof. unfold text_of. apply flat_map_app. Qed.

(* the text-level step of C11 (sspec_step, what c11_str_step proves the library does) on the text
   of a character sequence IS the character-level step *)
Theorem sspec_step_chars cap cs op :
  match op with SPushChar _ | VClear => True | _ => False end ->
  sspec_step cap (text_of cs) op =
  (text_of (fst (cspec_step cap cs op)), snd (cspec_step cap cs op)).
Proof.
  intros Hop. destruct op; try contradiction; cbn [sspec_step cspec_step]; [reflexivity|].
  unfold text_of at 1 2. rewrite utf8_encode_all_len, utf8_encode_len. fold (chars_len cs).
  destruct (cap - chars_len cs <? len_utf8 c); cbn [fst snd]; [reflexivity|].
  rewrite text_of_app. unfold text_of at 3. cbn [flat_map]. rewrite app_nil_r. reflexivity.
Qed.

(* and what the characters are can be read back from the text *)
Theorem text_of_decodes cs : Forall (fun c => c < 1114112) cs -> utf8_dec (text_of cs) = Some cs.
Proof. exact (utf8_dec_encode_all cs). Qed.

(* a text of scalar values is valid UTF-8 for the library's validator *)
Theorem text_of_valid cs : Forall scalar cs -> utf8_err (text_of cs) = None.
Proof.
  induction cs as [|c cs IH]; intros H; [reflexivity|].
  inversion H as [|c' cs' Hc Hcs]; subst. unfold text_of. cbn [flat_map].
  apply utf8_app; [apply utf8_encode_ok; exact Hc|apply IH; exact Hcs].
Qed.

(* a string of valid UTF-8 built from scalars decodes: the library's own validator accepts what
   decodes here (one direction, for encodings of scalars): see utf8_encode_ok *)

(* histories at the character level *)
Fixpoint cspec_run (cap : N) (ops : list vop) (cs : list N) : list N * list oout :=
  match ops with
  | [] => (cs, [])
  | op :: r =>
      let s := cspec_step cap cs op in
      let u := cspec_run cap r (fst s) in
      (fst u, snd s :: snd u)
  end.

Definition char_op (op : vop) : Prop := match op with SPushChar _ | VClear => True | _ => False end.

Theorem sspec_run_chars cap ops : Forall char_op ops -> forall cs,
  sspec_run cap ops (text_of cs) =
  (text_of (fst (cspec_run cap ops cs)), snd (cspec_run cap ops cs)).
Proof.
  induction ops as [|op ops IH]; intros Hops cs; [reflexivity|].
  inversion Hops as [|o r Hop Hops']; subst o r.
  cbn [sspec_run cspec_run fst snd].
  rewrite (sspec_step_chars cap cs op Hop). cbn [fst snd].
  rewrite (IH Hops'). reflexivity.
Qed.

(* the characters of a history of pushes read back from the final text *)
Theorem sspec_run_chars_decode cap ops cs : Forall char_op ops ->
  Forall (fun c => c < 1114112) (fst (cspec_run cap ops cs)) ->
  utf8_dec (fst (sspec_run cap ops (text_of cs))) = Some (fst (cspec_run cap ops cs)).
Proof.
  intros Hops Hcs. rewrite (sspec_run_chars cap ops Hops cs). cbn [fst].
  apply text_of_decodes. exact Hcs.
Qed.
