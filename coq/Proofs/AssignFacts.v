(* AssignFacts.v — a failed in-place assignment whose failure is detected by the outermost check of
   the emplacer leaves the target byte for byte as it was (C18, the "too little room" case). *)
From Coq Require Import List NArith Bool Lia ZArith ZifyN ZifyBool ZifyNat.
From Flatty.Model Require Import Base Ty Layout Validate View Emplace.
From Flatty.Proofs Require Import ArithFacts BytesFacts.
Open Scope N_scope.

Definition is_err {A} (r : res A) : bool := match r with Err _ _ => true | _ => false end.

(* the write primitives never produce Err: they succeed or are the explicit out-of-bounds outcome *)
Lemma write_int_not_err l v buf : is_err (snd (write_int l v buf)) = false.
Proof. unfold write_int, lift, write_at. destruct (_ <=? _); reflexivity. Qed.

Lemma write_masked_not_err pv m buf : is_err (snd (write_masked pv m buf)) = false.
Proof. unfold write_masked. destruct (_ <=? _); reflexivity. Qed.

Lemma ebind_not_err r f : is_err (snd r) = false -> (forall b, is_err (snd (f b)) = false) ->
  is_err (snd (ebind r f)) = false.
Proof. destruct r as [b [[]|k p|c]]; cbn; auto; discriminate. Qed.

Lemma on_slice_not_err pos len f buf : (forall b, is_err (snd (f b)) = false) ->
  is_err (snd (on_slice pos len f buf)) = false.
Proof. intros H. unfold on_slice. cbn [snd]. apply H. Qed.

Lemma vec_fill_not_err pv t l encs : forall len buf, is_err (snd (vec_fill pv t l encs len buf)) = false.
Proof.
  induction encs as [|e r IH]; intros len buf; [reflexivity|]. cbn [vec_fill].
  apply ebind_not_err; [apply on_slice_not_err; intros; apply write_masked_not_err|].
  intros b1. apply ebind_not_err; [apply write_int_not_err|]. intros b2. apply IH.
Qed.

(* FromArray (flat_vec!): the capacity is checked before anything is written *)
Theorem vec_from_array_err_unchanged pv et l is a buf b' k p :
  emplace_u pv (TVec et l) (IVecArr is) a buf = (b', Err k p) -> b' = buf /\ k = InsufficientSize.
Proof.
  cbn [emplace_u]. destruct (opt_all _) as [encs|]; [|discriminate].
  destruct (do slots <- vec_slots et l (blen buf); clamp_cap l slots) as [cap|k0 p0|c]; try discriminate.
  cbn [andb]. destruct (N.ltb_spec cap (N.of_nat (length encs))) as [Hlt|Hge].
  - unfold fail. intros H. injection H as <- <- _. auto.
  - intros H.
    assert (Hne : is_err (snd (dob b0 <- write_int l 0 buf;
                               dob b1 <- vec_fill pv et l (firstn (N.to_nat cap) encs) 0 b0; ok b1)) = false).
    { apply ebind_not_err; [apply write_int_not_err|]. intros b0.
      apply ebind_not_err; [apply vec_fill_not_err|]. intros b1. reflexivity. }
    rewrite H in Hne. discriminate.
Qed.

(* FromStr: likewise *)
Theorem str_from_str_err_unchanged pv l s a buf b' k p :
  emplace_u pv (TStr l) (IStr s) a buf = (b', Err k p) -> b' = buf /\ k = InsufficientSize.
Proof.
  cbn [emplace_u].
  destruct (do slots <- str_slots l (blen buf); clamp_cap l slots) as [cap|k0 p0|c]; try discriminate.
  destruct (N.ltb_spec cap (blen s)) as [Hlt|Hge].
  - unfold fail. intros H. injection H as <- <- _. auto.
  - intros H.
    assert (Hne : is_err (snd (dob b0 <- write_int l 0 buf;
                               dob b1 <- lift (write_at (isize l) s b0); write_int l (blen s) b1)) = false).
    { apply ebind_not_err; [apply write_int_not_err|]. intros b0.
      apply ebind_not_err; [|intros; apply write_int_not_err].
      unfold lift, write_at. destruct (_ <=? _); reflexivity. }
    rewrite H in Hne. discriminate.
Qed.

(* Empty / default emplacers of the containers never fail with Err *)
Theorem container_default_not_err pv t a buf :
  (exists et l, t = TVec et l) \/ (exists l, t = TStr l) \/ (exists et l, t = TFlex et l) ->
  forall i, i = IEmpty \/ i = IDefault -> is_err (snd (emplace_u pv t i a buf)) = false.
Proof.
  intros [(et & l & ->)|[(l & ->)|(et & l & ->)]] i [-> | ->]; cbn [emplace_u]; apply write_int_not_err.
Qed.

(* generated enum Init: when the variant does not fit (the check made before the tag is written)
   the target is unchanged *)
Lemma emplace_variant_check_unchanged pv vs : forall k is a data tag kv tagb b' kk p,
  emplace_variant pv vs k is a data tag kv tagb = (b', Err kk p) ->
  (forall fs is', vnth k vs = Some fs -> field_inits (ISeq is) (flen fs) = Some is' ->
     fs <> FNil /\ (aligned a (align_fields fs) = false \/ blen data < fold_min_size 0 fs)) ->
  b' = tagb ++ data.
Proof.
  induction vs as [|fs r IH]; intros k is a data tag kv tagb b' kk p H Hc; [discriminate|].
  cbn [emplace_variant] in H. destruct k as [|k'].
  - destruct (field_inits (ISeq is) (flen fs)) as [is'|] eqn:Ei; [|discriminate].
    destruct (Hc fs is' eq_refl Ei) as [Hne Hbad].
    destruct fs as [|t0 r0]; [congruence|].
    destruct Hbad as [Hal|Hsz].
    + rewrite Hal in H. cbn [negb] in H. unfold fail in H. injection H as <- _ _. reflexivity.
    + destruct (negb (aligned a (align_fields (FCons t0 r0)))); [unfold fail in H; injection H as <- _ _; reflexivity|].
      destruct (N.ltb_spec (blen data) (fold_min_size 0 (FCons t0 r0))); [|lia].
      unfold fail in H. injection H as <- _ _. reflexivity.
  - apply (IH k' is a data tag kv tagb b' kk p H). intros fs' is' Hn. apply Hc. exact Hn.
Qed.

(* generated struct Init: alignment / minimum size of the field list is checked before any write *)
Theorem struct_init_gate_unchanged pv fs i a buf is :
  field_inits i (flen fs) = Some is ->
  aligned a (align_fields fs) = false \/ floor_mul (blen buf) (align_fields fs) < fold_min_size 0 fs ->
  exists k, emplace_u pv (TStruct false fs) i a buf = (buf, Err k 0).
Proof.
  intros Hi Hbad. cbn [emplace_u]. rewrite Hi. destruct Hbad as [Hal|Hsz].
  - rewrite Hal. cbn [negb]. eexists. reflexivity.
  - destruct (negb (aligned a (align_fields fs))); [eexists; reflexivity|].
    destruct (N.ltb_spec (floor_mul (blen buf) (align_fields fs)) (fold_min_size 0 fs)); [|lia]. eexists. reflexivity.
Qed.

(* assign_in_place runs the emplacer on the value's own bytes: if the emplacer leaves them
   unchanged, the whole slice is unchanged *)
Theorem assign_unchanged pv t i a bs n r :
  bytes_len t (blen bs) = Ok n -> n <= blen bs ->
  emplace_u pv t i a (take n (drop 0 bs)) = (take n (drop 0 bs), r) ->
  assign_in_place pv t i a bs = (bs, r).
Proof.
  intros Hn Hle He. unfold assign_in_place. rewrite Hn. unfold on_slice. rewrite He. cbn [fst snd].
  unfold take at 1. cbn [N.to_nat firstn app]. rewrite drop_0, N.add_0_l. rewrite take_drop. reflexivity.
Qed.

(* generated enum Init as a whole: if the chosen variant's fit check fails, the target (tag
   included) is byte for byte what it was *)
Theorem enum_init_check_unchanged pv tag d vs k is a buf b' kk p :
  data_offset tag vs <= blen buf ->
  emplace_u pv (TEnum false tag d vs) (IVar k is) a buf = (b', Err kk p) ->
  (let al := umax (ialign tag) (align_variants vs) in
   let dof := data_offset tag vs in
   let data := take (floor_mul (blen (drop dof buf)) al) (drop dof buf) in
   forall fs is', vnth (N.to_nat k) vs = Some fs -> field_inits (ISeq is) (flen fs) = Some is' ->
     fs <> FNil /\ (aligned (a + dof) (align_fields fs) = false \/ blen data < fold_min_size 0 fs)) ->
  b' = buf.
Proof.
  intros Hd H Hc. cbn [emplace_u] in H.
  destruct (negb (k <? vlen vs)); [discriminate|].
  destruct (N.ltb_spec (blen buf) (data_offset tag vs)); [lia|].
  set (al := umax (ialign tag) (align_variants vs)) in *. set (dof := data_offset tag vs) in *.
  set (rest := drop dof buf) in *. set (n := floor_mul (blen rest) al) in *.
  destruct (emplace_variant pv vs (N.to_nat k) is (a + dof) (take n rest) tag k (take dof buf)) as [b1 r1] eqn:Ev.
  cbn [fst snd] in H. injection H as <- Hr. subst r1.
  rewrite (emplace_variant_check_unchanged pv vs _ _ _ _ _ _ _ _ _ _ Ev Hc).
  rewrite <- app_assoc. rewrite (take_drop n rest). unfold rest. apply take_drop.
Qed.
