(* NestedOpsFacts.v — a container nested as the unsized tail of a struct / of an enum variant,
   mutated through the mapped value (x.tail.push(..)): Model/Ops.v tail_container, nested_vec_op,
   nested_flex_op.  The sub-slice tail_container names is the slice validation and the accessors
   hand to the innermost tail field; replacing it by any valid slice of the same length keeps the
   whole value valid, keeps the place of the tail, and changes nothing the accessors read but the
   tail (C14); hence every container operation run on it keeps the whole value valid (C05/C11/C12). *)
From Coq Require Import List NArith Bool Lia ZArith ZifyN ZifyBool ZifyNat.
From Flatty.Model Require Import Base Ty Layout Utf8 Validate View Emplace Ops.
From Flatty.Proofs Require Import ArithFacts LayoutFacts BytesFacts ValidateFacts ChainFacts ViewFacts
  AddrFacts OpsFacts EmplaceFacts EmplaceSpec FlexOpsFacts VecTypedFacts.
From Flatty.Proofs Require Import EmplaceUnsizedFacts.
From Flatty.Proofs Require FlexAllFacts.
Open Scope N_scope.

(* ---------- 0. the splice ---------- *)

(* bs with the n bytes at position p replaced by s *)
Definition bsplice (p n : N) (s bs : bytes) : bytes := take p bs ++ s ++ drop (p + n) bs.

Lemma bsplice_blen p n s bs : p + n <= blen bs -> blen s = n -> blen (bsplice p n s bs) = blen bs.
Proof.
  intros H Hs. unfold bsplice. rewrite !blen_app, blen_take_le, blen_drop by lia. lia.
Qed.

Lemma bsplice_take_lo m p n s bs : m <= p -> p <= blen bs -> take m (bsplice p n s bs) = take m bs.
Proof.
  intros Hm Hp. unfold bsplice. rewrite take_app_le by (rewrite blen_take_le by lia; lia).
  apply take_take. exact Hm.
Qed.

Lemma bsplice_drop m p n s bs : m <= p -> p <= blen bs ->
  drop m (bsplice p n s bs) = bsplice (p - m) n s (drop m bs).
Proof.
  intros Hm Hp. unfold bsplice. rewrite FramingFacts.drop_app_le by (rewrite blen_take_le by lia; lia).
  rewrite (take_drop_comm (p - m) m bs). replace (m + (p - m)) with p by lia.
  rewrite drop_drop. replace (m + (p - m + n)) with (p + n) by lia. reflexivity.
Qed.

Lemma bsplice_take F p n s bs : p + n <= F -> F <= blen bs -> blen s = n ->
  take F (bsplice p n s bs) = bsplice p n s (take F bs).
Proof.
  intros H HF Hs. unfold bsplice.
  rewrite take_app_ge by (rewrite blen_take_le by lia; lia). rewrite blen_take_le by lia.
  rewrite take_app_ge by lia. rewrite Hs.
  rewrite take_take by lia.
  rewrite (take_drop_comm (F - p - n) (p + n) bs). replace (p + n + (F - p - n)) with F by lia.
  reflexivity.
Qed.

Lemma bsplice_frame p n s bs : p <= blen bs -> blen s = n ->
  take p (bsplice p n s bs) = take p bs /\ drop (p + n) (bsplice p n s bs) = drop (p + n) bs /\
  take n (drop p (bsplice p n s bs)) = s.
Proof.
  intros Hp Hs. unfold bsplice.
  destruct (splice_frame (take p bs) s (drop (p + n) bs)) as (H1 & H2 & H3 & _).
  rewrite blen_take_le in H1, H2, H3 by lia. rewrite Hs in H2, H3. auto.
Qed.

Lemma bsplice_all s bs : blen s = blen bs -> bsplice 0 (blen bs) s bs = s.
Proof.
  intros Hs. unfold bsplice. rewrite N.add_0_l, drop_all by lia. unfold take. cbn [N.to_nat firstn app].
  apply app_nil_r.
Qed.

Lemma sub_of_take F p n (bs : bytes) : p + n <= F -> take n (drop p (take F bs)) = take n (drop p bs).
Proof.
  intros H. rewrite !(take_drop_comm n p). rewrite take_take by lia. reflexivity.
Qed.

Lemma bsplice_agree m p n s bs : m <= p -> p + n <= blen bs -> blen s = n -> agree m bs (bsplice p n s bs).
Proof.
  intros Hm Hp Hs. unfold agree. rewrite bsplice_blen by lia.
  repeat split; try lia. apply bsplice_take_lo; lia.
Qed.

Lemma read_int_bsplice i p n s bs : isize i <= p -> p + n <= blen bs -> blen s = n ->
  read_int i (bsplice p n s bs) = read_int i bs.
Proof.
  intros Hi Hp Hs. unfold read_int. rewrite bsplice_blen by lia. rewrite bsplice_take_lo by lia. reflexivity.
Qed.

(* ---------- 1. what a sized value reads has no capacities: strip is the identity ---------- *)

Lemma view_arr_strip f s bs : forall k i vs,
  (forall j el v, f j el = Ok v -> strip v = v) ->
  view_arr f s bs k i = Ok vs -> map strip vs = vs.
Proof.
  induction k as [|k IH]; intros i vs Hf H.
  - cbn [view_arr] in H. injection H as <-. reflexivity.
  - cbn [view_arr] in H.
    apply bind_ok_inv in H. destruct H as (from & _ & H).
    apply bind_ok_inv in H. destruct H as (el & _ & H).
    apply bind_ok_inv in H. destruct H as (v & Hv & H).
    apply bind_ok_inv in H. destruct H as (r & Hr & H). injection H as <-.
    cbn [map]. rewrite (Hf _ _ _ Hv), (IH _ _ Hf Hr). reflexivity.
Qed.

Lemma strip_sized_mut :
  (forall t, wf t = true -> sized t = true -> forall bs v, view t bs = Ok v -> strip v = v) /\
  (forall fs, wf_fields_sized fs = true -> forall data pos vs, view_fields fs data pos = Ok vs -> map strip vs = vs) /\
  (forall vs, wf_variants true vs = true -> forall k data fvs, view_variant vs k data = Ok fvs -> map strip fvs = fvs).
Proof.
  apply ty_mutind.
  - intros _ _ bs v H. cbn [view] in H. injection H as <-. reflexivity.
  - intros i _ _ bs v H. cbn [view] in H. apply bind_ok_inv in H. destruct H as (x & _ & H). injection H as <-. reflexivity.
  - intros _ _ bs v H. cbn [view] in H. destruct bs as [|b r]; [discriminate|]. injection H as <-. reflexivity.
  - intros tag n d _ _ bs v H. cbn [view] in H. apply bind_ok_inv in H. destruct H as (x & _ & H). injection H as <-. reflexivity.
  - intros t IH n Hw _ bs v H. apply wf_arr_inv in Hw. destruct Hw as [Hwt Hst].
    cbn [view] in H. apply bind_ok_inv in H. destruct H as (vs & Hvs & H). injection H as <-.
    cbn [strip]. f_equal. eapply view_arr_strip; [|exact Hvs].
    intros j el v Hv. cbv beta in Hv. eapply IH; eauto.
  - intros t _ l _ Hs. discriminate.
  - intros l _ Hs. discriminate.
  - intros t _ l _ Hs. discriminate.
  - intros s fs IH Hw Hs bs v H. cbn [sized] in Hs. subst s. cbn [wf] in Hw.
    cbn [view] in H. apply bind_ok_inv in H. destruct H as (vs & Hvs & H). injection H as <-.
    cbn [strip]. f_equal. eapply IH; eauto.
  - intros s tag d vs IH Hw Hs bs v H. cbn [sized] in Hs. subst s.
    apply wf_enum_inv in Hw. destruct Hw as (_ & _ & _ & _ & _ & Hv).
    cbn [view] in H. apply bind_ok_inv in H. destruct H as (x & _ & H).
    apply bind_ok_inv in H. destruct H as (d0 & _ & H).
    apply bind_ok_inv in H. destruct H as (fvs & Hf & H). injection H as <-.
    cbn [strip]. f_equal. eapply IH; eauto.
  - intros _ data pos vs H. cbn [view_fields] in H. injection H as <-. reflexivity.
  - intros t IHt r IHr Hw data pos vs H.
    cbn [wf_fields_sized] in Hw. rewrite !andb_true_iff in Hw. destruct Hw as [[Hwt Hst] Hr].
    destruct r as [|t' r'].
    + rewrite view_fields_single in H. apply bind_ok_inv in H. destruct H as (v & Hv & H). injection H as <-.
      cbn [map]. rewrite (IHt Hwt Hst _ _ Hv). reflexivity.
    + rewrite view_fields_cons2 in H. apply bind_ok_inv in H. destruct H as (v & Hv & H).
      apply bind_ok_inv in H. destruct H as (sp & _ & H).
      apply bind_ok_inv in H. destruct H as (rest & Hrest & H). injection H as <-.
      cbn [map]. rewrite (IHt Hwt Hst _ _ Hv), (IHr Hr _ _ _ Hrest). reflexivity.
  - intros _ k data fvs H. cbn [view_variant] in H. discriminate.
  - intros fs IHf r IHr Hw k data fvs H.
    cbn [wf_variants] in Hw. rewrite andb_true_iff in Hw. destruct Hw as [Hf Hr].
    cbn [view_variant] in H. destruct k as [|k'].
    + eapply IHf; eauto.
    + eapply IHr; eauto.
Qed.

(* a sized field reads its first SIZE bytes only: validation and the value read are those of any
   slice that agrees on them *)
Lemma sized_local t a bs bs' : wf t = true -> sized t = true -> ssize t <= blen bs ->
  validate_u t a bs = Ok tt -> agree (ssize t) bs bs' ->
  validate_u t a bs' = Ok tt /\ view t bs' = view t bs.
Proof.
  intros Hw Hs Hl Hv (_ & Hl' & Ht).
  destruct (valid_local_u t a bs bs' (ssize t) Hw) as (Hv' & _ & v & v' & Hview & Hview' & Hst); auto.
  - rewrite min_size_sized by exact Hs. exact Hl.
  - apply size_m_sized. exact Hs.
  - split; [exact Hv'|]. rewrite Hview, Hview'. f_equal.
    destruct strip_sized_mut as (HS & _ & _).
    rewrite <- (HS t Hw Hs _ _ Hview), <- (HS t Hw Hs _ _ Hview'). exact Hst.
Qed.

(* ---------- 2. the value read along the path of last fields ---------- *)

(* the list with f applied to its last element *)
Fixpoint replace_last (f : value -> value) (vs : list value) : list value :=
  match vs with
  | [] => []
  | x :: r => match r with [] => [f x] | _ :: _ => x :: replace_last f r end
  end.

(* v with the value d levels down the path of last children replaced by w *)
Fixpoint replace_tail (d : nat) (v w : value) : value :=
  match d with
  | O => w
  | S d' => match v with
            | VNode g vs => VNode g (replace_last (fun x => replace_tail d' x w) vs)
            | _ => v
            end
  end.

(* the value d levels down the path of last children *)
Fixpoint tail_val (d : nat) (v : value) : option value :=
  match d with
  | O => Some v
  | S d' => match v with
            | VNode g vs => match vs with [] => None | _ :: _ => tail_val d' (last vs (VInt 0)) end
            | _ => None
            end
  end.

(* number of struct / enum levels above the container tail_container names *)
Fixpoint tail_depth (t : ty) (bs : bytes) {struct t} : nat :=
  match t with
  | TStruct false fs => S (tail_depth_fields fs (take (floor_mul (blen bs) (align_fields fs)) bs) 0)
  | TEnum false tag _ vs =>
      match read_int tag bs with
      | Ok v => S (tail_depth_variant vs (N.to_nat v) (enum_data false tag vs bs))
      | _ => O
      end
  | _ => O
  end
with tail_depth_fields (fs : fields) (data : bytes) (pos : N) {struct fs} : nat :=
  match fs with
  | FNil => O
  | FCons t r =>
      match r with
      | FNil => tail_depth t data
      | FCons t' _ => tail_depth_fields r (drop (pos_next pos t t' - pos) data) (pos_next pos t t')
      end
  end
with tail_depth_variant (vs : variants) (k : nat) (data : bytes) {struct vs} : nat :=
  match vs with
  | VNil => O
  | VCons fs r => match k with O => tail_depth_fields fs data 0 | S k' => tail_depth_variant r k' data end
  end.

Definition is_cont (t : ty) : bool :=
  match t with TVec _ _ | TStr _ | TFlex _ _ => true | _ => false end.

Lemma replace_last_cons f v rest : rest <> [] -> replace_last f (v :: rest) = v :: replace_last f rest.
Proof. destruct rest as [|x r]; [congruence|reflexivity]. Qed.

Lemma last_cons_ne (v : value) rest d : rest <> [] -> last (v :: rest) d = last rest d.
Proof. destruct rest as [|x r]; [congruence|reflexivity]. Qed.

Lemma tail_val_node d g vs : vs <> [] -> tail_val (S d) (VNode g vs) = tail_val d (last vs (VInt 0)).
Proof. destruct vs as [|x r]; [congruence|reflexivity]. Qed.

Lemma removelast_replace_last f vs : removelast (replace_last f vs) = removelast vs.
Proof.
  induction vs as [|x r IH]; [reflexivity|]. destruct r as [|y r']; [reflexivity|].
  change (replace_last f (x :: y :: r')) with (x :: replace_last f (y :: r')).
  assert (Hne : replace_last f (y :: r') <> []) by (destruct r'; discriminate).
  destruct (replace_last f (y :: r')) as [|z q] eqn:E; [congruence|].
  cbn [removelast] in *. rewrite IH. reflexivity.
Qed.

Lemma replace_last_twice f g vs : replace_last f (replace_last g vs) = replace_last (fun x => f (g x)) vs.
Proof.
  induction vs as [|x r IH]; [reflexivity|]. destruct r as [|y r']; [reflexivity|].
  change (replace_last g (x :: y :: r')) with (x :: replace_last g (y :: r')).
  change (replace_last (fun x0 => f (g x0)) (x :: y :: r')) with (x :: replace_last (fun x0 => f (g x0)) (y :: r')).
  rewrite <- IH. apply replace_last_cons. destruct r'; discriminate.
Qed.

Lemma replace_last_ext f g vs : (forall x, f x = g x) -> replace_last f vs = replace_last g vs.
Proof.
  intros H. induction vs as [|x r IH]; [reflexivity|]. destruct r as [|y r']; cbn [replace_last] in *; [rewrite H; reflexivity|].
  f_equal. exact IH.
Qed.

(* replacing twice is replacing once *)
Lemma replace_tail_twice d : forall v w1 w2, replace_tail d (replace_tail d v w1) w2 = replace_tail d v w2.
Proof.
  induction d as [|d IH]; intros v w1 w2; [reflexivity|].
  cbn [replace_tail]. destruct v as [x|g vs|c vs]; try reflexivity.
  f_equal. rewrite replace_last_twice. apply replace_last_ext. intros x. apply IH.
Qed.

(* ---------- 3. unfolding ---------- *)

Lemma tail_container_cont t bs : is_cont t = true -> tail_container t bs = Some (0, blen bs, t).
Proof. destruct t; cbn [is_cont]; intros H; try discriminate; reflexivity. Qed.

Lemma tail_depth_cont t bs : is_cont t = true -> tail_depth t bs = O.
Proof. destruct t; cbn [is_cont]; intros H; try discriminate; reflexivity. Qed.

Lemma tail_container_struct fs bs :
  tail_container (TStruct false fs) bs = tail_fields fs (take (floor_mul (blen bs) (align_fields fs)) bs) 0.
Proof. reflexivity. Qed.

Lemma tail_container_enum tag dflt vs bs :
  tail_container (TEnum false tag dflt vs) bs =
  match read_int tag bs with
  | Ok v =>
      if data_offset tag vs <=? blen bs then
        match tail_variant vs (N.to_nat v) (enum_data false tag vs bs) with
        | Some (p, n, ct) => Some (data_offset tag vs + p, n, ct)
        | None => None
        end
      else None
  | _ => None
  end.
Proof. reflexivity. Qed.

Lemma tail_fields_single t data pos :
  tail_fields (FCons t FNil) data pos =
  match tail_container t data with Some (p, n, ct) => Some (pos + p, n, ct) | None => None end.
Proof. reflexivity. Qed.

Lemma tail_fields_cons2 t t' r data pos :
  tail_fields (FCons t (FCons t' r)) data pos =
  if pos_next pos t t' - pos <=? blen data
  then tail_fields (FCons t' r) (drop (pos_next pos t t' - pos) data) (pos_next pos t t') else None.
Proof. reflexivity. Qed.

Lemma tail_depth_struct fs bs :
  tail_depth (TStruct false fs) bs = S (tail_depth_fields fs (take (floor_mul (blen bs) (align_fields fs)) bs) 0).
Proof. reflexivity. Qed.

Lemma tail_depth_enum tag dflt vs bs :
  tail_depth (TEnum false tag dflt vs) bs =
  match read_int tag bs with
  | Ok v => S (tail_depth_variant vs (N.to_nat v) (enum_data false tag vs bs))
  | _ => O
  end.
Proof. reflexivity. Qed.

Lemma tail_depth_fields_single t data pos : tail_depth_fields (FCons t FNil) data pos = tail_depth t data.
Proof. reflexivity. Qed.

Lemma tail_depth_fields_cons2 t t' r data pos :
  tail_depth_fields (FCons t (FCons t' r)) data pos =
  tail_depth_fields (FCons t' r) (drop (pos_next pos t t' - pos) data) (pos_next pos t t').
Proof. reflexivity. Qed.

Lemma validate_u_struct fs a bs :
  validate_u (TStruct false fs) a bs = validate_fields fs a (take (floor_mul (blen bs) (align_fields fs)) bs) 0.
Proof. reflexivity. Qed.

Lemma view_struct fs bs :
  view (TStruct false fs) bs =
  (do vs <- view_fields fs (take (floor_mul (blen bs) (align_fields fs)) bs) 0; Ok (VNode 0 vs)).
Proof. reflexivity. Qed.

Lemma view_enum_inv s tag dflt vs bs v x : read_int tag bs = Ok v -> data_offset tag vs <= blen bs ->
  view (TEnum s tag dflt vs) bs = Ok x ->
  exists fvs, view_variant vs (N.to_nat v) (enum_data s tag vs bs) = Ok fvs /\ x = VNode v fvs.
Proof.
  intros Hr Hd H. cbn [view] in H. rewrite Hr in H. cbn [bind] in H.
  rewrite drop_unchecked_ok in H by exact Hd. cbn [bind] in H.
  apply bind_ok_inv in H. destruct H as (fvs & Hf & H). injection H as <-.
  exists fvs. split; [exact Hf|reflexivity].
Qed.

Lemma view_fields_ne t r data pos vs : view_fields (FCons t r) data pos = Ok vs -> vs <> [].
Proof.
  intros H. destruct r as [|t' r'].
  - rewrite view_fields_single in H. apply bind_ok_inv in H. destruct H as (v & _ & H). injection H as <-. discriminate.
  - rewrite view_fields_cons2 in H. apply bind_ok_inv in H. destruct H as (v & _ & H).
    apply bind_ok_inv in H. destruct H as (sp & _ & H).
    apply bind_ok_inv in H. destruct H as (rest & _ & H). injection H as <-. discriminate.
Qed.

Lemma validate_fields_cons2_inv t t' r a data pos :
  validate_fields (FCons t (FCons t' r)) a data pos = Ok tt ->
  validate_u t a data = Ok tt /\ pos_next pos t t' - pos <= blen data /\
  validate_fields (FCons t' r) (a + (pos_next pos t t' - pos)) (drop (pos_next pos t t' - pos) data) (pos_next pos t t') = Ok tt.
Proof.
  intros H. rewrite validate_fields_cons2 in H. apply bind_ok_inv in H. destruct H as ([] & Hv & H).
  apply shift_ok_inv in Hv. cbv zeta in H. apply bind_ok_inv in H. destruct H as (sp & Hsp & H).
  apply split_at_inv in Hsp. destruct Hsp as [Hle ->]. cbn [snd] in H. auto.
Qed.

Lemma validate_fields_cons2_intro t t' r a data pos :
  validate_u t a data = Ok tt -> pos_next pos t t' - pos <= blen data ->
  validate_fields (FCons t' r) (a + (pos_next pos t t' - pos)) (drop (pos_next pos t t' - pos) data) (pos_next pos t t') = Ok tt ->
  validate_fields (FCons t (FCons t' r)) a data pos = Ok tt.
Proof.
  intros Hv Hle H. rewrite validate_fields_cons2. rewrite Hv. cbn [shift bind]. cbv zeta.
  rewrite split_at_ok by exact Hle. cbn [bind snd]. exact H.
Qed.

Lemma view_fields_cons2_inv t t' r data pos vs :
  view_fields (FCons t (FCons t' r)) data pos = Ok vs ->
  exists v rest, view t data = Ok v /\ pos_next pos t t' - pos <= blen data /\
    view_fields (FCons t' r) (drop (pos_next pos t t' - pos) data) (pos_next pos t t') = Ok rest /\ vs = v :: rest.
Proof.
  intros H. rewrite view_fields_cons2 in H. apply bind_ok_inv in H. destruct H as (v & Hv & H).
  apply bind_ok_inv in H. destruct H as (sp & Hsp & H).
  apply split_at_inv in Hsp. destruct Hsp as [Hle ->]. cbn [snd] in H.
  apply bind_ok_inv in H. destruct H as (rest & Hrest & H). injection H as <-.
  exists v, rest. auto.
Qed.

(* ---------- 4. the statement, level by level ---------- *)

(* the sub-slice [q, q+n) of data (first byte of data at address a) is a container of type ct that
   validates at its address *)
Definition core (ct : ty) (A a q n : N) (data : bytes) : Prop :=
  q + n <= blen data /\ is_cont ct = true /\ wf ct = true /\ align ct <= A /\ min_size ct <= n /\
  validate_u ct (a + q) (take n (drop q data)) = Ok tt.

Definition Tspec (t : ty) : Prop := forall a bs p n ct,
  min_size t <= blen bs -> validate_u t a bs = Ok tt -> tail_container t bs = Some (p, n, ct) ->
  core ct (align t) a p n bs /\ p mod align ct = 0 /\
  (forall v w, view t bs = Ok v -> view ct (take n (drop p bs)) = Ok w ->
     tail_val (tail_depth t bs) v = Some w) /\
  forall s, blen s = n -> validate_u ct (a + p) s = Ok tt ->
    validate_u t a (bsplice p n s bs) = Ok tt /\
    tail_container t (bsplice p n s bs) = Some (p, n, ct) /\
    tail_depth t (bsplice p n s bs) = tail_depth t bs /\
    forall v w', view t bs = Ok v -> view ct s = Ok w' ->
      view t (bsplice p n s bs) = Ok (replace_tail (tail_depth t bs) v w').

Definition Fspec (fs : fields) : Prop := forall a data pos p n ct,
  end_min fs pos <= pos + blen data -> pos mod head_align fs = 0 ->
  validate_fields fs a data pos = Ok tt -> tail_fields fs data pos = Some (p, n, ct) ->
  exists q, p = pos + q /\ core ct (align_fields fs) a q n data /\ p mod align ct = 0 /\
  (forall vs w, view_fields fs data pos = Ok vs -> view ct (take n (drop q data)) = Ok w ->
     tail_val (tail_depth_fields fs data pos) (last vs (VInt 0)) = Some w) /\
  forall s, blen s = n -> validate_u ct (a + q) s = Ok tt ->
    validate_fields fs a (bsplice q n s data) pos = Ok tt /\
    tail_fields fs (bsplice q n s data) pos = Some (p, n, ct) /\
    tail_depth_fields fs (bsplice q n s data) pos = tail_depth_fields fs data pos /\
    forall vs w', view_fields fs data pos = Ok vs -> view ct s = Ok w' ->
      view_fields fs (bsplice q n s data) pos =
      Ok (replace_last (fun x => replace_tail (tail_depth_fields fs data pos) x w') vs).

Definition Vspec (vs : variants) : Prop := forall k a data p n ct,
  validate_variant vs k false a data = Ok tt -> tail_variant vs k data = Some (p, n, ct) ->
  core ct (align_variants vs) a p n data /\ p mod align ct = 0 /\
  (forall fvs w, view_variant vs k data = Ok fvs -> view ct (take n (drop p data)) = Ok w ->
     fvs <> [] /\ tail_val (tail_depth_variant vs k data) (last fvs (VInt 0)) = Some w) /\
  forall s, blen s = n -> validate_u ct (a + p) s = Ok tt ->
    validate_variant vs k false a (bsplice p n s data) = Ok tt /\
    tail_variant vs k (bsplice p n s data) = Some (p, n, ct) /\
    tail_depth_variant vs k (bsplice p n s data) = tail_depth_variant vs k data /\
    forall fvs w', view_variant vs k data = Ok fvs -> view ct s = Ok w' ->
      view_variant vs k (bsplice p n s data) =
      Ok (replace_last (fun x => replace_tail (tail_depth_variant vs k data) x w') fvs).

(* a container is its own tail *)
Lemma cont_case t : is_cont t = true -> wf t = true -> Tspec t.
Proof.
  intros Hc Hw a bs p n ct Hm Hv Htc.
  rewrite tail_container_cont in Htc by exact Hc. injection Htc as <- <- <-.
  rewrite tail_depth_cont by exact Hc.
  assert (Hsub : take (blen bs) (drop 0 bs) = bs) by (rewrite drop_0; apply take_all; lia).
  split; [|split; [|split]].
  - unfold core. rewrite Hsub, N.add_0_r. repeat split; auto; lia.
  - apply N.mod_0_l. pose proof (align_pos _ Hw). lia.
  - intros v w Hview Hw'. rewrite Hsub in Hw'. cbn [tail_val]. congruence.
  - intros s Hs Hvs. rewrite bsplice_all by exact Hs. rewrite N.add_0_r in Hvs.
    split; [exact Hvs|]. split; [rewrite tail_container_cont by exact Hc; rewrite Hs; reflexivity|].
    split; [apply tail_depth_cont; exact Hc|].
    intros v w' _ Hw'. cbn [replace_tail]. exact Hw'.
Qed.

Lemma P16_le_mod a b : P16 a -> P16 b -> a <= b -> b mod a = 0.
Proof. intros Ha Hb Hle. apply P16_div; auto. Qed.

Lemma fields_single t : wf t = true -> Tspec t -> Fspec (FCons t FNil).
Proof.
  intros Hw IH a data pos p n ct He Hpos Hv Htc.
  cbn [end_min] in He. cbn [head_align] in Hpos.
  rewrite validate_fields_single in Hv. apply bind_ok_inv in Hv. destruct Hv as ([] & Hv & _).
  apply shift_ok_inv in Hv.
  rewrite tail_fields_single in Htc.
  destruct (tail_container t data) as [[[p0 n0] ct0]|] eqn:E; [|discriminate]. injection Htc as <- <- <-.
  destruct (IH a data p0 n0 ct0 ltac:(lia) Hv E) as (Hcore & Hal & Hval & Hrep).
  exists p0. split; [reflexivity|].
  destruct Hcore as (H1 & H2 & H3 & H4 & H5 & H6).
  split; [|split; [|split]].
  - unfold core. repeat split; auto. cbn [align_fields]. pose proof (umax_ge_l (align t) 1). lia.
  - pose proof (align_P16 _ Hw) as Pt. pose proof (align_P16 _ H3) as Pc.
    apply mod_add_mult; auto.
    + apply P16_pos; auto.
    + apply (mod_trans pos (align t) (align ct0)); auto using P16_pos. apply P16_le_mod; auto.
  - intros vs w Hvs Hw'. rewrite view_fields_single in Hvs.
    apply bind_ok_inv in Hvs. destruct Hvs as (v & Hview & Hvs). injection Hvs as <-.
    cbn [last]. rewrite tail_depth_fields_single. eapply Hval; eauto.
  - intros s Hs Hvs. destruct (Hrep s Hs Hvs) as (R1 & R2 & R3 & R4).
    split; [rewrite validate_fields_single, R1; reflexivity|].
    split; [rewrite tail_fields_single, R2; reflexivity|].
    split; [rewrite !tail_depth_fields_single; exact R3|].
    intros vs w' Hview Hw'. rewrite view_fields_single in Hview.
    apply bind_ok_inv in Hview. destruct Hview as (v & Hview & Hx). injection Hx as <-.
    rewrite view_fields_single. rewrite (R4 v w' Hview Hw'). cbn [bind replace_last].
    rewrite tail_depth_fields_single. reflexivity.
Qed.

Lemma fields_cons2 t t' r : wf t = true -> sized t = true -> wfF (FCons t' r) ->
  Fspec (FCons t' r) -> Fspec (FCons t (FCons t' r)).
Proof.
  intros Hw Hs Hr IH a data pos p n ct He Hpos Hv Htc.
  rewrite end_min_cons2 in He.
  set (np := pos_next pos t t') in *.
  pose proof (wfF_cons _ _ Hr) as [Hwt' _].
  pose proof (align_pos _ Hwt') as Hal'.
  assert (Hnp : pos + ssize t <= np) by (unfold np, pos_next; apply ceil_mul_ge; exact Hal').
  pose proof (end_min_ge _ Hr np) as Hge.
  apply validate_fields_cons2_inv in Hv. fold np in Hv. destruct Hv as (Hvt & Hle & Hvr).
  rewrite tail_fields_cons2 in Htc. fold np in Htc.
  destruct (N.leb_spec (np - pos) (blen data)) as [_|Hbad]; [|lia].
  assert (Hnpal : np mod head_align (FCons t' r) = 0).
  { cbn [head_align]. unfold np, pos_next. apply ceil_mul_mod. exact Hal'. }
  destruct (IH (a + (np - pos)) (drop (np - pos) data) np p n ct) as (q2 & Hp & Hcore & Hal & Hval & Hrep); auto.
  { rewrite blen_drop. lia. }
  destruct Hcore as (H1 & H2 & H3 & H4 & H5 & H6).
  rewrite blen_drop in H1. rewrite drop_drop in H6. rewrite <- N.add_assoc in H6.
  exists (np - pos + q2). split; [lia|].
  split; [|split; [|split]].
  - unfold core. repeat split; auto; try lia.
    cbn [align_fields] in *. pose proof (umax_ge_r (align t) (umax (align t') (align_fields r))). lia.
  - exact Hal.
  - intros vs w Hvs Hw'.
    apply view_fields_cons2_inv in Hvs. fold np in Hvs. destruct Hvs as (v & rest & Hview & _ & Hrest & ->).
    rewrite last_cons_ne by (eapply view_fields_ne; eauto).
    rewrite tail_depth_fields_cons2. fold np. apply Hval; auto.
    rewrite drop_drop. exact Hw'.
  - intros s Hsl Hvs.
    set (data' := bsplice (np - pos + q2) n s data).
    assert (Hbl : blen data' = blen data) by (apply bsplice_blen; lia).
    assert (Hdrop : drop (np - pos) data' = bsplice q2 n s (drop (np - pos) data)).
    { unfold data'. rewrite bsplice_drop by lia. f_equal. lia. }
    assert (Hag : agree (ssize t) data data') by (apply bsplice_agree; lia).
    destruct (sized_local t a data data' Hw Hs ltac:(lia) Hvt Hag) as [Hvt' Hviewt].
    rewrite <- N.add_assoc in Hrep.
    destruct (Hrep s Hsl Hvs) as (R1 & R2 & R3 & R4). rewrite <- Hdrop in R1, R2, R3, R4.
    split; [apply validate_fields_cons2_intro; fold np; auto; lia|].
    split.
    { rewrite tail_fields_cons2. fold np. rewrite Hbl.
      destruct (N.leb_spec (np - pos) (blen data)) as [_|Hbad]; [|lia]. exact R2. }
    split; [rewrite !tail_depth_fields_cons2; fold np; exact R3|].
    intros vs w' Hview Hw'.
    apply view_fields_cons2_inv in Hview. fold np in Hview. destruct Hview as (v & rest & Hv1 & _ & Hrest & ->).
    rewrite view_fields_cons2. fold np. rewrite Hviewt, Hv1. cbn [bind].
    rewrite split_at_ok by lia. cbn [bind snd].
    rewrite (R4 rest w' Hrest Hw'). cbn [bind].
    rewrite replace_last_cons by (eapply view_fields_ne; eauto).
    rewrite tail_depth_fields_cons2. reflexivity.
Qed.

Lemma struct_case fs : wf (TStruct false fs) = true -> (wfF fs -> Fspec fs) -> Tspec (TStruct false fs).
Proof.
  intros Hw IH a bs p n ct Hm Hv Htc.
  destruct fs as [|t0 r0]; [cbn in Hw; discriminate|].
  assert (HwF : wfF (FCons t0 r0)) by (right; left; exact Hw).
  pose proof (struct_end_min false t0 r0 bs Hw Hm) as He. cbv iota in He.
  pose proof (wfF_cons _ _ HwF) as [Hwt0 _].
  pose proof (P16_pos _ (align_fields_P16 _ (or_intror HwF))) as Hal.
  set (fs := FCons t0 r0) in *.
  set (F := floor_mul (blen bs) (align_fields fs)) in *.
  pose proof (floor_mul_le (blen bs) (align_fields fs) Hal) as HF. fold F in HF.
  assert (Hbd : blen (take F bs) = F) by (apply blen_take_le; exact HF).
  rewrite validate_u_struct in Hv. rewrite tail_container_struct in Htc. fold F in Hv, Htc.
  assert (H0 : 0 mod head_align fs = 0).
  { apply N.mod_0_l. unfold fs. cbn [head_align]. pose proof (align_pos _ Hwt0). lia. }
  destruct (IH HwF a (take F bs) 0 p n ct He H0 Hv Htc) as (q & Hp & Hcore & Halg & Hval & Hrep).
  rewrite N.add_0_l in Hp. subst q.
  destruct Hcore as (H1 & H2 & H3 & H4 & H5 & H6). rewrite Hbd in H1.
  rewrite sub_of_take in H6 by exact H1.
  split; [|split; [|split]].
  - unfold core. repeat split; auto. lia.
  - exact Halg.
  - intros v w Hview Hw'. rewrite view_struct in Hview. fold F in Hview.
    apply bind_ok_inv in Hview. destruct Hview as (vs & Hvs & Hx). injection Hx as <-.
    rewrite tail_depth_struct. fold F.
    rewrite tail_val_node by (eapply view_fields_ne; exact Hvs).
    apply Hval; auto. rewrite sub_of_take by exact H1. exact Hw'.
  - intros s Hs Hvs.
    assert (Hbl : blen (bsplice p n s bs) = blen bs) by (apply bsplice_blen; lia).
    assert (Htk : take F (bsplice p n s bs) = bsplice p n s (take F bs)) by (apply bsplice_take; auto).
    destruct (Hrep s Hs Hvs) as (R1 & R2 & R3 & R4). rewrite <- Htk in R1, R2, R3, R4.
    split; [rewrite validate_u_struct, Hbl; exact R1|].
    split; [rewrite tail_container_struct, Hbl; exact R2|].
    split; [rewrite !tail_depth_struct, Hbl; fold F; rewrite R3; reflexivity|].
    intros v w' Hview Hw'. rewrite view_struct in Hview. fold F in Hview.
    apply bind_ok_inv in Hview. destruct Hview as (vs & Hvs' & Hx). injection Hx as <-.
    rewrite view_struct, Hbl. fold F. rewrite (R4 vs w' Hvs' Hw'). cbn [bind].
    rewrite tail_depth_struct. fold F. reflexivity.
Qed.

Lemma variants_nil : Vspec VNil.
Proof. intros k a data p n ct Hv Htc. cbn [tail_variant] in Htc. discriminate. Qed.

Lemma variants_cons fs r : (wfF fs -> Fspec fs) -> wf_variants false (VCons fs r) = true ->
  Vspec r -> Vspec (VCons fs r).
Proof.
  intros IHf Hw IHr k a data p n ct Hv Htc.
  apply wf_variants_cons in Hw. destruct Hw as [Hf Hr].
  destruct k as [|k'].
  - cbn [validate_variant tail_variant] in Hv, Htc. cbn [negb andb] in Hv.
    destruct (N.ltb_spec (blen data) (data_min_size fs)) as [|Hdm]; [discriminate|].
    destruct fs as [|t0 r0]; [cbn [tail_fields] in Htc; discriminate|].
    destruct Hf as [Hf|Hf]; [discriminate|].
    unfold data_min_size in Hdm. rewrite fold_min_size_0 in Hdm by discriminate.
    pose proof (wfF_cons _ _ Hf) as [Hwt0 _].
    assert (H0 : 0 mod head_align (FCons t0 r0) = 0).
    { apply N.mod_0_l. cbn [head_align]. pose proof (align_pos _ Hwt0). lia. }
    destruct (IHf Hf a data 0 p n ct ltac:(lia) H0 Hv Htc) as (q & Hp & Hcore & Halg & Hval & Hrep).
    rewrite N.add_0_l in Hp. subst q.
    destruct Hcore as (H1 & H2 & H3 & H4 & H5 & H6).
    split; [|split; [|split]].
    + unfold core. repeat split; auto. cbn [align_variants].
      pose proof (umax_ge_l (align_fields (FCons t0 r0)) (align_variants r)). lia.
    + exact Halg.
    + intros fvs w Hview Hw'. cbn [view_variant tail_depth_variant] in *.
      split; [eapply view_fields_ne; exact Hview|]. apply Hval; auto.
    + intros s Hs Hvs. destruct (Hrep s Hs Hvs) as (R1 & R2 & R3 & R4).
      cbn [validate_variant tail_variant tail_depth_variant view_variant negb andb].
      rewrite bsplice_blen by lia.
      destruct (N.ltb_spec (blen data) (data_min_size (FCons t0 r0))) as [Hbad|_].
      { unfold data_min_size in Hbad. rewrite fold_min_size_0 in Hbad by discriminate. lia. }
      auto.
  - cbn [validate_variant tail_variant] in Hv, Htc.
    destruct (IHr k' a data p n ct Hv Htc) as (Hcore & Halg & Hval & Hrep).
    destruct Hcore as (H1 & H2 & H3 & H4 & H5 & H6).
    split; [|split; [|split]].
    + unfold core. repeat split; auto. cbn [align_variants].
      pose proof (umax_ge_r (align_fields fs) (align_variants r)). lia.
    + exact Halg.
    + cbn [view_variant tail_depth_variant]. exact Hval.
    + cbn [validate_variant tail_variant tail_depth_variant view_variant]. exact Hrep.
Qed.

Lemma enum_data_bsplice tag vs p0 n s bs :
  0 < umax (ialign tag) (align_variants vs) ->
  data_offset tag vs <= blen bs -> p0 + n <= blen (enum_data false tag vs bs) -> blen s = n ->
  enum_data false tag vs (bsplice (data_offset tag vs + p0) n s bs) = bsplice p0 n s (enum_data false tag vs bs).
Proof.
  intros Hal Hd Hp Hs. unfold enum_data in *. cbv zeta iota in *.
  set (d := data_offset tag vs) in *. set (al := umax (ialign tag) (align_variants vs)) in *.
  pose proof (floor_mul_le (blen (drop d bs)) al Hal) as HF.
  rewrite blen_take_le in Hp by exact HF.
  rewrite blen_drop in *.
  assert (Hle : d + p0 + n <= blen bs) by lia.
  rewrite bsplice_drop by lia. replace (d + p0 - d) with p0 by lia.
  rewrite bsplice_blen by (rewrite ?blen_drop; lia).
  rewrite blen_drop.
  apply bsplice_take; auto. rewrite blen_drop. exact HF.
Qed.

Lemma enum_case tag dflt vs : wf (TEnum false tag dflt vs) = true -> Vspec vs -> Tspec (TEnum false tag dflt vs).
Proof.
  intros Hw IH a bs p n ct Hm Hv Htc.
  destruct (enum_consts false tag dflt vs Hw) as (Hal & Hid & Hdm).
  pose proof (wf_enum_inv _ _ _ _ Hw) as (Hi & _ & _ & _ & _ & Hwv).
  assert (Pal : P16 (umax (ialign tag) (align_variants vs))).
  { apply P16_umax; [apply wf_int_P16 in Hi; tauto|eapply align_variants_P16; eauto]. }
  set (d := data_offset tag vs) in *. set (al := umax (ialign tag) (align_variants vs)) in *.
  destruct (enum_valid_inv _ _ _ _ _ _ Hv) as (v & Hr & Hlt & Hd & Hvv). fold d in Hd, Hvv.
  rewrite tail_container_enum, Hr in Htc. fold d in Htc.
  destruct (N.leb_spec d (blen bs)) as [_|Hbad]; [|lia].
  destruct (tail_variant vs (N.to_nat v) (enum_data false tag vs bs)) as [[[p0 n0] ct0]|] eqn:E; [|discriminate].
  injection Htc as <- <- <-.
  destruct (IH (N.to_nat v) (a + d) _ p0 n0 ct0 Hvv E) as (Hcore & Halg & Hval & Hrep).
  destruct Hcore as (H1 & H2 & H3 & H4 & H5 & H6).
  assert (Hsub : take n0 (drop p0 (enum_data false tag vs bs)) = take n0 (drop (d + p0) bs)).
  { unfold enum_data in *. cbv zeta iota in *. fold d al in H1 |- *.
    pose proof (floor_mul_le (blen (drop d bs)) al Hal) as HF.
    rewrite blen_take_le in H1 by exact HF.
    rewrite sub_of_take by exact H1. rewrite drop_drop. reflexivity. }
  assert (Hle : d + p0 + n0 <= blen bs).
  { unfold enum_data in H1. cbv zeta iota in H1. fold d al in H1.
    pose proof (floor_mul_le (blen (drop d bs)) al Hal) as HF.
    rewrite blen_take_le in H1 by exact HF. rewrite blen_drop in *. lia. }
  rewrite Hsub in H6. rewrite <- N.add_assoc in H6.
  assert (Hac : align ct0 <= al) by (unfold al; pose proof (umax_ge_r (ialign tag) (align_variants vs)); lia).
  split; [|split; [|split]].
  - unfold core. repeat split; auto; try lia.
  - pose proof (align_P16 _ H3) as Pc. apply mod_add_mult; auto using P16_pos.
    apply (mod_trans d al (align ct0)); auto using P16_pos. apply P16_le_mod; auto.
  - intros x w Hview Hw'.
    destruct (view_enum_inv _ _ _ _ _ _ _ Hr Hd Hview) as (fvs & Hf & ->).
    rewrite tail_depth_enum, Hr. rewrite <- Hsub in Hw'.
    destruct (Hval fvs w Hf Hw') as [Hne Htv].
    rewrite tail_val_node by exact Hne. exact Htv.
  - intros s Hs Hvs. rewrite N.add_assoc in Hvs.
    set (bs' := bsplice (d + p0) n0 s bs).
    assert (Hbl : blen bs' = blen bs) by (apply bsplice_blen; lia).
    assert (Hr' : read_int tag bs' = Ok v) by (unfold bs'; rewrite read_int_bsplice by lia; exact Hr).
    assert (Hed : enum_data false tag vs bs' = bsplice p0 n0 s (enum_data false tag vs bs)).
    { apply enum_data_bsplice; auto. }
    destruct (Hrep s Hs Hvs) as (R1 & R2 & R3 & R4). rewrite <- Hed in R1, R2, R3, R4.
    split; [apply (enum_valid_intro _ _ _ _ _ _ v); auto; lia|].
    split.
    { rewrite tail_container_enum, Hr', Hbl. fold d.
      destruct (N.leb_spec d (blen bs)) as [_|Hbad]; [|lia]. rewrite R2. reflexivity. }
    split; [rewrite !tail_depth_enum, Hr', Hr, R3; reflexivity|].
    intros x w' Hview Hw'.
    destruct (view_enum_inv _ _ _ _ _ _ _ Hr Hd Hview) as (fvs & Hf & ->).
    rewrite tail_depth_enum, Hr. cbn [replace_tail].
    apply view_enum_eval; auto; lia.
Qed.

(* THE SPECIFICATION OF tail_container, all three levels *)
Theorem tail_container_spec_mut :
  (forall t, wf t = true -> Tspec t) /\
  (forall fs, wfF fs -> Fspec fs) /\
  (forall vs, wf_variants false vs = true -> Vspec vs).
Proof.
  apply ty_mutind.
  - intros _ a bs p n ct _ _ H. discriminate.
  - intros i _ a bs p n ct _ _ H. discriminate.
  - intros _ a bs p n ct _ _ H. discriminate.
  - intros tag n0 d _ a bs p n ct _ _ H. discriminate.
  - intros t _ n0 _ a bs p n ct _ _ H. discriminate.
  - intros t _ l Hw. apply cont_case; auto.
  - intros l Hw. apply cont_case; auto.
  - intros t _ l Hw. apply cont_case; auto.
  - intros s fs IH Hw. destruct s.
    + intros a bs p n ct _ _ H. discriminate.
    + apply struct_case; auto.
  - intros s tag d vs IH Hw. destruct s.
    + intros a bs p n ct _ _ H. discriminate.
    + apply enum_case; auto. apply IH. apply wf_enum_inv in Hw. tauto.
  - intros _ a data pos p n ct _ _ _ H. discriminate.
  - intros t IHt r IHr Hw. apply wfF_cons in Hw. destruct Hw as [Hwt Hr].
    destruct r as [|t' r'].
    + apply fields_single; auto.
    + destruct Hr as [Hr|[Hst Hr]]; [discriminate|]. apply fields_cons2; auto.
  - intros _. apply variants_nil.
  - intros fs IHf r IHr Hw. apply variants_cons; auto.
    apply wf_variants_cons in Hw. tauto.
Qed.

(* ---------- 5. the pinned form ---------- *)

(* 1. tail_container names the slice validation and the accessors hand to the innermost tail
   field; any valid slice of the same length may take its place *)
Theorem tail_container_spec t a bs p n ct : wf t = true -> min_size t <= blen bs ->
  validate_u t a bs = Ok tt -> tail_container t bs = Some (p, n, ct) ->
  (p + n <= blen bs /\ is_cont ct = true /\ wf ct = true /\ align ct <= align t /\ min_size ct <= n /\
   validate_u ct (a + p) (take n (drop p bs)) = Ok tt) /\
  p mod align ct = 0 /\
  (forall v w, view t bs = Ok v -> view ct (take n (drop p bs)) = Ok w ->
     tail_val (tail_depth t bs) v = Some w) /\
  forall s, blen s = n -> validate_u ct (a + p) s = Ok tt ->
    validate_u t a (bsplice p n s bs) = Ok tt /\
    tail_container t (bsplice p n s bs) = Some (p, n, ct) /\
    tail_depth t (bsplice p n s bs) = tail_depth t bs /\
    forall v w', view t bs = Ok v -> view ct s = Ok w' ->
      view t (bsplice p n s bs) = Ok (replace_tail (tail_depth t bs) v w').
Proof.
  intros Hw Hm Hv Htc. exact (proj1 tail_container_spec_mut t Hw a bs p n ct Hm Hv Htc).
Qed.

(* the siblings along the path: tag and all children but the last, level by level *)
Fixpoint siblings (d : nat) (v : value) : list (N * list value) :=
  match d with
  | O => []
  | S d' => match v with
            | VNode g vs => (g, removelast vs) :: siblings d' (last vs (VInt 0))
            | _ => []
            end
  end.

Lemma last_replace_last f vs d0 : vs <> [] -> last (replace_last f vs) d0 = f (last vs d0).
Proof.
  induction vs as [|x r IH]; intros Hne; [congruence|]. destruct r as [|y r']; [reflexivity|].
  change (replace_last f (x :: y :: r')) with (x :: replace_last f (y :: r')).
  change (last (x :: y :: r') d0) with (last (y :: r') d0).
  rewrite (last_cons_ne x (replace_last f (y :: r'))) by (destruct r'; discriminate).
  apply IH. discriminate.
Qed.

(* replacing the tail changes no sibling at any level *)
Lemma siblings_replace_tail d : forall v w, siblings d (replace_tail d v w) = siblings d v.
Proof.
  induction d as [|d IH]; intros v w; [reflexivity|].
  destruct v as [x|g vs|c vs]; try reflexivity.
  cbn [replace_tail siblings]. rewrite removelast_replace_last. f_equal.
  destruct vs as [|x r]; [reflexivity|].
  rewrite last_replace_last by discriminate. apply IH.
Qed.

(* one level: the tag and all fields but the last *)
Lemma replace_tail_node d g vs w g' vs' : replace_tail (S d) (VNode g vs) w = VNode g' vs' ->
  g' = g /\ removelast vs' = removelast vs.
Proof.
  cbn [replace_tail]. intros H. injection H as <- <-. split; [reflexivity|apply removelast_replace_last].
Qed.

Lemma tail_depth_pos t bs x : tail_container t bs = Some x -> is_cont t = false ->
  exists d, tail_depth t bs = S d.
Proof.
  intros H Hc. destruct t as [| | | | | | | |s fs|s tag dflt vs]; try discriminate.
  - destruct s; [discriminate|]. rewrite tail_depth_struct. eauto.
  - destruct s; [discriminate|]. rewrite tail_container_enum in H. rewrite tail_depth_enum.
    destruct (read_int tag bs); try discriminate. eauto.
Qed.

Lemma bsplice_id p n (bs : bytes) : bsplice p n (take n (drop p bs)) bs = bs.
Proof.
  unfold bsplice. rewrite <- (drop_drop n p bs). rewrite take_drop. apply take_drop.
Qed.

Lemma aligned_tail a p A c : P16 A -> P16 c -> c <= A -> aligned a A = true -> p mod c = 0 ->
  aligned (a + p) c = true.
Proof.
  intros PA Pc Hle Ha Hp. unfold aligned in *. rewrite N.eqb_eq in *.
  apply mod_add_mult; auto using P16_pos.
  apply (mod_trans a A c); auto using P16_pos. apply P16_le_mod; auto.
Qed.

Lemma validate_intro t a bs : aligned a (align t) = true -> min_size t <= blen bs ->
  validate_u t a bs = Ok tt -> validate t a bs = Ok tt.
Proof.
  intros Ha Hm Hv. unfold validate, check_align_min. rewrite Ha. cbn [negb].
  destruct (N.ltb_spec (blen bs) (min_size t)); [lia|]. cbn [bind]. exact Hv.
Qed.

Lemma validate_aligned t a bs : validate t a bs = Ok tt -> aligned a (align t) = true.
Proof.
  intros H. apply validate_inv in H. destruct H as (Hc & _ & _). unfold check_align_min in Hc.
  destruct (aligned a (align t)); [reflexivity|discriminate].
Qed.

(* the state of a value after its tail has been worked on, relative to the state bs before *)
Definition nested_rel (t : ty) (a p n : N) (ct : ty) (bs b : bytes) : Prop :=
  blen b = blen bs /\ validate t a b = Ok tt /\
  take p b = take p bs /\ drop (p + n) b = drop (p + n) bs /\
  tail_container t b = Some (p, n, ct) /\ tail_depth t b = tail_depth t bs /\
  validate ct (a + p) (take n (drop p b)) = Ok tt /\
  exists v w', view t bs = Ok v /\ view ct (take n (drop p b)) = Ok w' /\
    view t b = Ok (replace_tail (tail_depth t bs) v w').

(* with FlatValidate::validate (alignment and minimum size included) on both levels *)
Theorem nested_replace t a bs p n ct s : wf t = true -> validate t a bs = Ok tt ->
  tail_container t bs = Some (p, n, ct) ->
  p + n <= blen bs /\ wf ct = true /\ is_cont ct = true /\
  validate ct (a + p) (take n (drop p bs)) = Ok tt /\
  (blen s = n -> validate ct (a + p) s = Ok tt -> nested_rel t a p n ct bs (bsplice p n s bs)).
Proof.
  intros Hw Hv Htc. pose proof (validate_aligned _ _ _ Hv) as Hal.
  pose proof (validate_inv _ _ _ Hv) as (Hc & Hm & Hvu).
  destruct (tail_container_spec t a bs p n ct Hw Hm Hvu Htc) as ((H1 & H2 & H3 & H4 & H5 & H6) & Halg & Hval & Hrep).
  assert (Hal' : aligned (a + p) (align ct) = true).
  { apply (aligned_tail a p (align t)); auto using align_P16. }
  split; [exact H1|]. split; [exact H3|]. split; [exact H2|].
  split.
  { apply validate_intro; auto. rewrite blen_take_le by (rewrite blen_drop; lia). exact H5. }
  intros Hs Hvs. apply validate_inv in Hvs. destruct Hvs as (_ & _ & Hvs).
  destruct (Hrep s Hs Hvs) as (R1 & R2 & R3 & R4).
  destruct (bsplice_frame p n s bs ltac:(lia) Hs) as (F1 & F2 & F3).
  assert (Hbl : blen (bsplice p n s bs) = blen bs) by (apply bsplice_blen; auto).
  unfold nested_rel. rewrite F3.
  assert (Hv' : validate t a (bsplice p n s bs) = Ok tt).
  { apply validate_intro; auto. rewrite Hbl. exact Hm. }
  assert (Hvs' : validate ct (a + p) s = Ok tt) by (apply validate_intro; auto; lia).
  repeat (split; [assumption|]).
  destruct (valid_size_view t a bs Hw Hv) as (_ & v & _ & _ & _ & _ & Hview & _).
  destruct (valid_size_view ct (a + p) s H3 Hvs') as (_ & w' & _ & _ & _ & _ & Hview' & _).
  exists v, w'. split; [exact Hview|]. split; [exact Hview'|]. apply R4; auto.
Qed.

Lemma nested_rel_refl t a bs p n ct : wf t = true -> validate t a bs = Ok tt ->
  tail_container t bs = Some (p, n, ct) -> nested_rel t a p n ct bs bs.
Proof.
  intros Hw Hv Htc.
  destruct (nested_replace t a bs p n ct (take n (drop p bs)) Hw Hv Htc) as (H1 & _ & _ & Hvs & H).
  rewrite bsplice_id in H. apply H; auto. rewrite blen_take_le by (rewrite blen_drop; lia). reflexivity.
Qed.

Lemma nested_rel_trans t a p n ct b0 b1 b2 :
  nested_rel t a p n ct b0 b1 -> nested_rel t a p n ct b1 b2 -> nested_rel t a p n ct b0 b2.
Proof.
  intros (A1 & A2 & A3 & A4 & A5 & A6 & A7 & v & w1 & Av & Aw & Av1)
         (B1 & B2 & B3 & B4 & B5 & B6 & B7 & v1 & w2 & Bv & Bw & Bv2).
  unfold nested_rel. repeat (split; [congruence|]).
  exists v, w2. split; [exact Av|]. split; [exact Bw|].
  rewrite Bv2. rewrite Av1 in Bv. injection Bv as <-. rewrite A6. rewrite replace_tail_twice. reflexivity.
Qed.

(* what nested_rel says about siblings: at every level of the path the tag and all fields but the
   last read the same *)
Lemma nested_rel_siblings t a p n ct bs b v v' : nested_rel t a p n ct bs b ->
  view t bs = Ok v -> view t b = Ok v' ->
  siblings (tail_depth t bs) v' = siblings (tail_depth t bs) v.
Proof.
  intros (_ & _ & _ & _ & _ & _ & _ & v0 & w' & Hv0 & _ & Hv1) Hv Hv'.
  rewrite Hv in Hv0. injection Hv0 as <-. rewrite Hv' in Hv1. injection Hv1 as ->.
  apply siblings_replace_tail.
Qed.

(* ... in particular at the top: for a struct or an enum *)
Lemma nested_rel_top t a p n ct bs b g vs g' vs' : is_cont t = false -> nested_rel t a p n ct bs b ->
  view t bs = Ok (VNode g vs) -> view t b = Ok (VNode g' vs') ->
  g' = g /\ removelast vs' = removelast vs.
Proof.
  intros Hc Hrel Hv Hv'.
  pose proof Hrel as (_ & _ & _ & _ & Htc & Hd & _ & v0 & w' & Hv0 & _ & Hv1).
  rewrite Hv in Hv0. injection Hv0 as <-. rewrite Hv' in Hv1. injection Hv1 as Hv1.
  destruct (tail_depth_pos t b _ Htc Hc) as (d & Hd'). rewrite <- Hd, Hd' in Hv1.
  symmetry in Hv1. eapply replace_tail_node; eauto.
Qed.

(* ---------- 6. FlatVec / FlatString operations on the nested tail ---------- *)

Lemma nested_vec_op_eq pv t vo bs p n ct : tail_container t bs = Some (p, n, ct) ->
  nested_vec_op pv t vo bs =
  (bsplice p n (fst (vec_op pv ct vo (take n (drop p bs)))) bs, snd (vec_op pv ct vo (take n (drop p bs)))).
Proof. intros H. unfold nested_vec_op. rewrite H. reflexivity. Qed.

Theorem nested_vec_op_ok pv t a vo bs p n ct : wf t = true -> validate t a bs = Ok tt ->
  tail_container t bs = Some (p, n, ct) -> item_vop_ok ct vo ->
  let sub := take n (drop p bs) in
  let r := nested_vec_op pv t vo bs in
  validate ct (a + p) sub = Ok tt /\
  snd r = snd (vec_op pv ct vo sub) /\
  take n (drop p (fst r)) = fst (vec_op pv ct vo sub) /\
  nested_rel t a p n ct bs (fst r).
Proof.
  intros Hw Hv Htc Hop sub r.
  destruct (nested_replace t a bs p n ct (fst (vec_op pv ct vo sub)) Hw Hv Htc) as (H1 & Hwc & _ & Hvs & H).
  destruct (vec_op_item_edit pv ct vo Hwc Hop (a + p) sub Hvs) as [Hb Hv'].
  assert (Hbs : blen sub = n) by (unfold sub; rewrite blen_take_le by (rewrite blen_drop; lia); reflexivity).
  unfold r. rewrite (nested_vec_op_eq pv t vo bs p n ct Htc). cbn [fst snd]. fold sub.
  split; [exact Hvs|]. split; [reflexivity|].
  split; [apply bsplice_frame; lia|]. apply H; auto. lia.
Qed.

(* ---------- 7. FlexVec operations on the nested tail ---------- *)

Definition flex_nop_ok (ct : ty) (fo : fop) : Prop :=
  match ct with
  | TFlex et l =>
      narrow l = true /\
      match fo with
      | FPush i => init_ok et i = true /\ utf8_init i = true /\ narrow_ty et = true
      | FPop | FTruncate _ | FClear => True
      | _ => False
      end
  | _ => True
  end.

Definition is_flex (t : ty) : bool := match t with TFlex _ _ => true | _ => false end.

Lemma view_flex_node et l bs x : view (TFlex et l) bs = Ok x -> exists vs, x = VNode 0 vs.
Proof.
  rewrite view_flex. intros H. apply bind_ok_inv in H. destruct H as (r & _ & H). injection H as <-. eauto.
Qed.

Lemma flex_op_other pv ct a fo bs : is_flex ct = false -> flex_op pv ct a fo bs = (bs, OBad).
Proof. destruct ct; cbn [is_flex]; intros H; try discriminate; reflexivity. Qed.

(* push / pop / truncate / clear on a valid FlexVec image keep the length and the validity *)
Lemma flex_op_valid pv ct a fo bs : wf ct = true -> flex_nop_ok ct fo -> validate ct a bs = Ok tt ->
  blen (fst (flex_op pv ct a fo bs)) = blen bs /\ validate ct a (fst (flex_op pv ct a fo bs)) = Ok tt.
Proof.
  intros Hw Hop Hv. destruct (is_flex ct) eqn:Ef.
  2:{ rewrite flex_op_other by exact Ef. cbn [fst]. auto. }
  destruct ct as [| | | | | | |et l| |]; try discriminate. clear Ef.
  destruct Hop as [Hnl Hop].
  destruct (valid_size_view _ a bs Hw Hv) as (k & v & Hk & _ & _ & _ & Hview & _).
  destruct (view_flex_node _ _ _ _ Hview) as (vs & ->).
  destruct fo as [i| |m| |j vo|j x]; try contradiction.
  - destruct Hop as (Hi & Hu & Hnt).
    assert (Hnty : narrow_ty (TFlex et l) = true) by (cbn [narrow_ty]; rewrite Hnt, Hnl; reflexivity).
    destruct (FlexAllFacts.flex_push_all pv et l a Hw Hnty i bs vs k Hi Hu Hv Hview Hk) as (Hb & Hv' & _). auto.
  - destruct (flex_pop_ok pv et l a Hw Hnl bs vs Hv Hview) as (_ & _ & Hb & Hv' & _). auto.
  - destruct (flex_truncate_ok pv et l a Hw Hnl m bs vs Hv Hview) as (_ & Hb & Hv' & _). auto.
  - destruct (flex_clear_ok pv et l a Hw Hnl bs Hv) as (_ & Hb & Hv' & _). auto.
Qed.

Lemma nested_flex_op_eq pv t a fo bs p n ct : tail_container t bs = Some (p, n, ct) ->
  nested_flex_op pv t a fo bs =
  (bsplice p n (fst (flex_op pv ct (a + p) fo (take n (drop p bs)))) bs,
   snd (flex_op pv ct (a + p) fo (take n (drop p bs)))).
Proof. intros H. unfold nested_flex_op. rewrite H. reflexivity. Qed.

Theorem nested_flex_op_ok pv t a fo bs p n ct : wf t = true -> validate t a bs = Ok tt ->
  tail_container t bs = Some (p, n, ct) -> flex_nop_ok ct fo ->
  let sub := take n (drop p bs) in
  let r := nested_flex_op pv t a fo bs in
  validate ct (a + p) sub = Ok tt /\
  snd r = snd (flex_op pv ct (a + p) fo sub) /\
  take n (drop p (fst r)) = fst (flex_op pv ct (a + p) fo sub) /\
  nested_rel t a p n ct bs (fst r).
Proof.
  intros Hw Hv Htc Hop sub r.
  destruct (nested_replace t a bs p n ct (fst (flex_op pv ct (a + p) fo sub)) Hw Hv Htc) as (H1 & Hwc & _ & Hvs & H).
  destruct (flex_op_valid pv ct (a + p) fo sub Hwc Hop Hvs) as [Hb Hv'].
  assert (Hbs : blen sub = n) by (unfold sub; rewrite blen_take_le by (rewrite blen_drop; lia); reflexivity).
  unfold r. rewrite (nested_flex_op_eq pv t a fo bs p n ct Htc). cbn [fst snd]. fold sub.
  split; [exact Hvs|]. split; [reflexivity|].
  split; [apply bsplice_frame; lia|]. apply H; auto. lia.
Qed.

(* ---------- 8. histories ---------- *)

Inductive nop := NVec (vo : vop) | NFlex (fo : fop).

Definition nested_op (pv : option N) (t : ty) (a : N) (op : nop) (bs : bytes) : bytes * oout :=
  match op with
  | NVec vo => nested_vec_op pv t vo bs
  | NFlex fo => nested_flex_op pv t a fo bs
  end.

(* the same operation on a top-level container mapped at address pa *)
Definition cont_nop (pv : option N) (ct : ty) (pa : N) (op : nop) (sub : bytes) : bytes * oout :=
  match op with
  | NVec vo => vec_op pv ct vo sub
  | NFlex fo => flex_op pv ct pa fo sub
  end.

Definition nop_ok (ct : ty) (op : nop) : Prop :=
  match op with
  | NVec vo => item_vop_ok ct vo
  | NFlex fo => flex_nop_ok ct fo
  end.

Fixpoint nested_run (pv : option N) (t : ty) (a : N) (ops : list nop) (bs : bytes) : bytes * list oout :=
  match ops with
  | [] => (bs, [])
  | op :: r =>
      let s := nested_op pv t a op bs in
      let u := nested_run pv t a r (fst s) in
      (fst u, snd s :: snd u)
  end.

Fixpoint cont_run (pv : option N) (ct : ty) (pa : N) (ops : list nop) (sub : bytes) : bytes * list oout :=
  match ops with
  | [] => (sub, [])
  | op :: r =>
      let s := cont_nop pv ct pa op sub in
      let u := cont_run pv ct pa r (fst s) in
      (fst u, snd s :: snd u)
  end.

(* the states passed through, the initial one included *)
Fixpoint nested_trace (pv : option N) (t : ty) (a : N) (ops : list nop) (bs : bytes) : list bytes :=
  bs :: match ops with
        | [] => []
        | op :: r => nested_trace pv t a r (fst (nested_op pv t a op bs))
        end.

Theorem nested_op_ok pv t a op bs p n ct : wf t = true -> validate t a bs = Ok tt ->
  tail_container t bs = Some (p, n, ct) -> nop_ok ct op ->
  let sub := take n (drop p bs) in
  let r := nested_op pv t a op bs in
  snd r = snd (cont_nop pv ct (a + p) op sub) /\
  take n (drop p (fst r)) = fst (cont_nop pv ct (a + p) op sub) /\
  nested_rel t a p n ct bs (fst r).
Proof.
  intros Hw Hv Htc Hop sub r. destruct op as [vo|fo]; cbn [nop_ok nested_op cont_nop] in *.
  - destruct (nested_vec_op_ok pv t a vo bs p n ct Hw Hv Htc Hop) as (_ & A & B & C). auto.
  - destruct (nested_flex_op_ok pv t a fo bs p n ct Hw Hv Htc Hop) as (_ & A & B & C). auto.
Qed.

Lemma nested_history_gen pv t a p n ct b0 : wf t = true -> forall ops b,
  Forall (nop_ok ct) ops -> nested_rel t a p n ct b0 b ->
  let r := nested_run pv t a ops b in
  nested_rel t a p n ct b0 (fst r) /\
  Forall (nested_rel t a p n ct b0) (nested_trace pv t a ops b) /\
  take n (drop p (fst r)) = fst (cont_run pv ct (a + p) ops (take n (drop p b))) /\
  snd r = snd (cont_run pv ct (a + p) ops (take n (drop p b))).
Proof.
  intros Hw. induction ops as [|op ops IH]; intros b Hops Hrel.
  - cbn [nested_run nested_trace cont_run fst snd].
    split; [exact Hrel|]. split; [constructor; [exact Hrel|constructor]|]. split; reflexivity.
  - apply Forall_cons_iff in Hops. destruct Hops as [Hop Hops].
    pose proof Hrel as (_ & Hv & _ & _ & Htc & _).
    destruct (nested_op_ok pv t a op b p n ct Hw Hv Htc Hop) as (So & Sb & Srel).
    pose proof (nested_rel_trans _ _ _ _ _ _ _ _ Hrel Srel) as Hrel'.
    destruct (IH _ Hops Hrel') as (I1 & I2 & I3 & I4).
    cbn [nested_run nested_trace cont_run]. cbv zeta. cbn [fst snd].
    rewrite <- Sb, <- So.
    split; [exact I1|]. split; [constructor; [exact Hrel|exact I2]|]. split; [exact I3|].
    rewrite I4. reflexivity.
Qed.

(* 4. every finite history of container operations on the nested tail *)
Theorem nested_history_ok pv t a ops bs p n ct : wf t = true -> validate t a bs = Ok tt ->
  tail_container t bs = Some (p, n, ct) -> Forall (nop_ok ct) ops ->
  let r := nested_run pv t a ops bs in
  nested_rel t a p n ct bs (fst r) /\
  Forall (nested_rel t a p n ct bs) (nested_trace pv t a ops bs) /\
  take n (drop p (fst r)) = fst (cont_run pv ct (a + p) ops (take n (drop p bs))) /\
  snd r = snd (cont_run pv ct (a + p) ops (take n (drop p bs))).
Proof.
  intros Hw Hv Htc Hops. apply nested_history_gen; auto. apply nested_rel_refl; auto.
Qed.

(* ---------- 9. the typed reading for a nested FlatVec: what the accessors of the WHOLE value read
   afterwards is what they read before with the tail's element list replaced by the list
   operation's result (C11 one level up) ---------- *)

Theorem nested_vec_op_typed pv t a vo bs p n et l : wf t = true -> validate t a bs = Ok tt ->
  tail_container t bs = Some (p, n, TVec et l) ->
  let cap := c_cap (geom_vec et l n) in
  let r := nested_vec_op pv t vo bs in
  exists v vs vs', view t bs = Ok v /\ tail_val (tail_depth t bs) v = Some (VCont cap vs) /\
    view t (fst r) = Ok (replace_tail (tail_depth t bs) v (VCont cap vs')) /\
    (map strip vs', snd r) = tspec_step et cap (map strip vs) vo.
Proof.
  intros Hw Hv Htc cap r.
  destruct (nested_vec_op_ok pv t a vo bs p n _ Hw Hv Htc I) as (Hvs & Ho & Hsub & Hrel).
  destruct (nested_replace t a bs p n _ [] Hw Hv Htc) as (Hpn & Hwc & _ & _ & _).
  set (sub := take n (drop p bs)) in *.
  assert (Hbs : blen sub = n) by (unfold sub; rewrite blen_take_le by (rewrite blen_drop; lia); reflexivity).
  destruct (vec_op_typed pv et l (a + p) vo sub Hwc Hvs) as (_ & _ & (vs & vs' & V1 & V2 & V3 & _) & _).
  rewrite Hbs in V1, V2, V3. fold cap in V1, V2, V3.
  destruct Hrel as (_ & _ & _ & _ & _ & _ & _ & v & w' & Hview & Hw' & Hview').
  fold r in Hw', Hview', Ho, Hsub. rewrite Hsub, V2 in Hw'. injection Hw' as <-.
  pose proof (validate_inv _ _ _ Hv) as (_ & Hm & Hvu).
  destruct (tail_container_spec t a bs p n _ Hw Hm Hvu Htc) as (_ & _ & Hval & _).
  exists v, vs, vs'. split; [exact Hview|]. split; [apply Hval; auto|]. split; [exact Hview'|].
  rewrite Ho. exact V3.
Qed.
