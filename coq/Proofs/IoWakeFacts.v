(* IoWakeFacts.v — the wake-up discipline of the async IO model (property C08, "wake" part).
   A task is re-polled only after its waker was woken, and the waker is registered by whoever
   answered Pending last: the pipe.  So a future of the library may answer Pending ONLY when the
   pipe it polled in that same call answered Pending, and that answer must be the LAST pipe
   interaction of the poll; otherwise the wake-up is lost.
     part 1: one poll of the recv() future              (recv_loop)
     part 2: one poll of the WriteAll future            (send_poll = the body of asend_poll's turn)
     part 3: the tasks of the composed system           (sys_poll_send / sys_poll_recv / sys_step) *)
From Coq Require Import List NArith Bool Lia ZArith ZifyN ZifyBool ZifyNat.
From Flatty.Model Require Import Base Io.
From Flatty.Proofs Require Import ArithFacts BytesFacts IoRecvFacts IoSendFacts IoSysFacts.
Import ListNotations.
Open Scope N_scope.

(* ------------------------------------------------------------------ small list facts *)

Lemma Forall_not_in {T} (x : T) (l : list T) : Forall (fun d => d <> x) l <-> ~ In x l.
Proof.
  rewrite Forall_forall. split.
  - intros H Hin. exact (H x Hin eq_refl).
  - intros H d Hd E. subst d. exact (H Hd).
Qed.

Lemma rdir_of_cons room str sc d : (forall k, d <> RD k) -> rdir_of room str sc = d ->
  sc = d :: tl sc.
Proof.
  intros Hd. destruct sc as [|d0 r]; cbn [rdir_of tl].
  - intros E. exfalso. exact (Hd _ (eq_sym E)).
  - intros ->. reflexivity.
Qed.

Lemma tl_cons_inv {T} (l pre : list T) (x : T) (rest : list T) :
  tl l = pre ++ x :: rest -> exists d, l = d :: pre ++ x :: rest.
Proof.
  destruct l as [|d t]; cbn [tl].
  - intros E. destruct pre; discriminate E.
  - intros ->. exists d. reflexivity.
Qed.

(* ================================================================== part 1: recv *)

Definition is_rd (d : rdir) : Prop := exists k, d = RD k.

Lemma is_rd_not_rp d : is_rd d -> d <> RP.
Proof. intros [k ->]. discriminate. Qed.

Section WakeRecv.
  Variable v : N -> bytes -> res unit.

  (* One poll of the recv() future that answers Pending consumed the directives [pre], every one of
     them a delivery (RD), and then an RP: the Pending answer of the pipe is the last pipe call of
     the poll, the call counter advanced by exactly those calls, and the watchdog did not fire.
     No hypothesis on the validation function, the buffer or the source. *)
  Lemma recv_loop_wake_rd : forall fuel limit sv b s b' s',
    recv_loop v fuel limit sv b s = (b', s', RPending) ->
    exists pre, rscript s = pre ++ RP :: rscript s' /\ Forall is_rd pre /\
                rcalls s' = rcalls s + N.of_nat (length pre) + 1 /\ rcalls s' <= limit.
  Proof.
    induction fuel as [|fuel IH]; intros limit sv b s b' s' E; [cbn [recv_loop] in E; discriminate E|].
    rewrite recv_loop_S in E.
    destruct (if sv then Err InsufficientSize 0 else v (st b) (occupied b)) as [u|k p|c];
      try discriminate E.
    destruct k; try discriminate E.
    destruct (read_prepare b) as [b1|]; [|discriminate E].
    unfold recv_after in E.
    destruct (N.ltb_spec limit (rcalls s + 1)) as [Hl|Hl]; [discriminate E|].
    rewrite pipe_read_eq in E.
    destruct (rdir_of (vacant_len b1) (stream s) (rscript s)) as [k| |e|] eqn:Hd; try discriminate E.
    - set (n := rd_n (vacant_len b1) (stream s) (RD k)) in E.
      destruct (advance (blen (take n (stream s))) (fill_vacant (take n (stream s)) b1)) as [b2|kk pp|cc];
        try discriminate E.
      destruct (blen (take n (stream s)) =? 0); [discriminate E|].
      apply IH in E. cbn [rscript rcalls] in E.
      destruct E as (pre & E1 & E2 & E3 & E4).
      destruct (tl_cons_inv _ _ _ _ E1) as [d Hsc].
      assert (Hdk : d = RD k) by (rewrite Hsc in Hd; cbn [rdir_of] in Hd; exact Hd).
      exists (d :: pre). split; [exact Hsc|]. split.
      + constructor; [exists k; exact Hdk|exact E2].
      + cbn [length]. split; [lia|exact E4].
    - injection E as _ <-. cbn [rscript rcalls].
      exists []. split.
      + cbn [app]. apply (rdir_of_cons _ _ _ RP (fun k => ltac:(discriminate)) Hd).
      + split; [constructor|]. cbn [length]. lia.
  Qed.

  Theorem recv_loop_wake : forall fuel limit sv b s b' s',
    recv_loop v fuel limit sv b s = (b', s', RPending) ->
    exists pre, rscript s = pre ++ RP :: rscript s' /\ Forall (fun d => d <> RP) pre /\
                rcalls s' = rcalls s + N.of_nat (length pre) + 1.
  Proof.
    intros fuel limit sv b s b' s' E.
    destruct (recv_loop_wake_rd _ _ _ _ _ _ _ E) as (pre & E1 & E2 & E3 & _).
    exists pre. split; [exact E1|]. split; [|exact E3].
    apply (Forall_impl _ is_rd_not_rp E2).
  Qed.

  (* no RP in the script: the poll never answers Pending *)
  Corollary recv_loop_no_rp_no_pending : forall fuel limit sv b s b' s' o,
    ~ In RP (rscript s) -> recv_loop v fuel limit sv b s = (b', s', o) -> o <> RPending.
  Proof.
    intros fuel limit sv b s b' s' o Hn E ->.
    destruct (recv_loop_wake _ _ _ _ _ _ _ E) as (pre & E1 & _).
    apply Hn. rewrite E1. apply in_or_app. right. left. reflexivity.
  Qed.
End WakeRecv.

(* ================================================================== part 2: send *)

(* One poll of the WriteAll future: the body of one turn of asend_poll after the harness's poll
   budget check — the poisoned check, write_loop from the current position and, when the whole
   message has been handed over, the flush.  It returns the new position instead of a poll count. *)
Definition send_poll (limit pos count : N) (sd : sender) (k : sink) (evs : list wev)
  : sender * sink * N * list wev * sout :=
  if poisoned sd then (sd, k, pos, evs, SPanic)
  else
    match write_loop (S (N.to_nat count)) limit pos count sd k evs with
    | (sd1, k1, pos1, evs1, SOk) =>
        match fdir_of k1 with
        | FO => ({| sbuf := clear (sbuf sd1); poisoned := poisoned sd1 |}, sink_flushed k1, pos1, EvFO :: evs1, SOk)
        | FE e => (sd1, sink_flushed k1, pos1, EvFE :: evs1, SIo e)
        | FP => (sd1, sink_flushed k1, pos1, EvFP :: evs1, SPending)
        end
    | r => r
    end.

(* send_poll IS the turn of asend_poll: a Pending poll is followed by another poll from the state it
   left, every other outcome ends the future; each poll counts once *)
Lemma asend_poll_turn fuel limit polls pos count sd k evs :
  asend_poll (S fuel) limit polls pos count sd k evs =
  if limit <=? polls then (sd, k, polls, evs, SHang)
  else
    match send_poll limit pos count sd k evs with
    | (sd1, k1, pos1, evs1, SPending) => asend_poll fuel limit (polls + 1) pos1 count sd1 k1 evs1
    | (sd1, k1, _, evs1, o) => (sd1, k1, polls + 1, evs1, o)
    end.
Proof.
  rewrite asend_poll_S. unfold send_poll.
  destruct (limit <=? polls); [reflexivity|].
  destruct (poisoned sd); [reflexivity|].
  destruct (write_loop (S (N.to_nat count)) limit pos count sd k evs) as [[[[sd1 k1] pos1] evs1] o].
  destruct o; try reflexivity.
  destruct (fdir_of k1); reflexivity.
Qed.

Definition is_evw (e : wev) : bool := match e with EvW _ => true | _ => false end.
Definition is_pend (e : wev) : bool := match e with EvWP | EvFP => true | _ => false end.
(* number of Pending answers in an event list *)
Definition pend_count (l : list wev) : nat := length (filter is_pend l).

Lemma pend_count_app a b : pend_count (a ++ b) = (pend_count a + pend_count b)%nat.
Proof. unfold pend_count. rewrite filter_app, app_length. reflexivity. Qed.

Lemma pend_count_evw wr : forallb is_evw wr = true -> pend_count wr = 0%nat.
Proof.
  induction wr as [|e wr IH]; [reflexivity|]. cbn [forallb]. intros H.
  apply andb_true_iff in H. destruct H as [He Hr]. destruct e; try discriminate He.
  unfold pend_count. cbn [filter is_pend]. apply IH. exact Hr.
Qed.

Lemma wdir_of_cons k off d : (forall n, d <> WA n) -> wdir_of k off = d -> wscript k = d :: tl (wscript k).
Proof.
  intros Hd. unfold wdir_of. destruct (wscript k) as [|d0 t]; cbn [tl].
  - intros E. exfalso. exact (Hd _ (eq_sym E)).
  - intros ->. reflexivity.
Qed.

(* the shape of one run of write_loop, per outcome.  [wr]: the events of this run that accepted
   bytes, newest first; [pre]: the script directives consumed by them. *)
Definition wl_wake_post (pos count : N) (sd : sender) (k : sink) (evs : list wev)
    (sd' : sender) (k' : sink) (pos' : N) (evs' : list wev) (o : sout) : Prop :=
  exists wr pre,
    forallb is_evw wr = true /\ pos' = pos + ev_bytes wr /\
    Forall (fun d => d <> WP) pre /\ (length pre <= length wr)%nat /\
    fscript k' = fscript k /\
    match o with
    | SPending =>
        evs' = EvWP :: wr ++ evs /\ wscript k = pre ++ WP :: wscript k' /\ length pre = length wr /\
        wcalls k' = wcalls k + N.of_nat (length wr) + 1 /\ pos' < count /\ sd' = sd
    | SOk =>
        evs' = wr ++ evs /\ wscript k = pre ++ wscript k' /\
        wcalls k' = wcalls k + N.of_nat (length wr) /\ count <= pos' /\ sd' = sd
    | _ => exists h, evs' = h ++ wr ++ evs /\ pend_count h = 0%nat
    end.

Lemma write_loop_wake : forall fuel limit count sd pos k evs sd' k' pos' evs' o,
  write_loop fuel limit pos count sd k evs = (sd', k', pos', evs', o) ->
  wl_wake_post pos count sd k evs sd' k' pos' evs' o.
Proof.
  induction fuel as [|fuel IH]; intros limit count sd pos k evs sd' k' pos' evs' o H.
  - cbn [write_loop] in H. inversion H; subst; clear H.
    exists [], []. cbn [forallb ev_bytes length app]. repeat (split; [first [reflexivity|lia|constructor]|]).
    exists []. split; reflexivity.
  - rewrite write_loop_S in H.
    destruct (N.ltb_spec pos count) as [Hlt|Hge].
    2:{ inversion H; subst; clear H.
        exists [], []. cbn [forallb ev_bytes length app].
        repeat (split; [first [reflexivity|lia|constructor]|]). reflexivity. }
    destruct (N.ltb_spec limit (wcalls k + 1)) as [Hl|Hl].
    { inversion H; subst; clear H.
      exists [], []. cbn [forallb ev_bytes length app sink_hang fscript].
      repeat (split; [first [reflexivity|lia|constructor]|]).
      exists []. split; reflexivity. }
    assert (Hfault : forall ev e, is_pend ev = false ->
       (sd', k', pos', evs', o) = (poison_at pos sd, sink_fault k, pos, ev :: evs, SIo e) ->
       wl_wake_post pos count sd k evs sd' k' pos' evs' o).
    { intros ev e Hev E. inversion E; subst; clear E.
      exists [], []. cbn [forallb ev_bytes length app sink_fault fscript].
      repeat (split; [first [reflexivity|lia|constructor]|]).
      exists [ev]. split; [reflexivity|]. unfold pend_count. cbn [filter]. rewrite Hev. reflexivity. }
    destruct (wdir_of k (offered_of pos count sd)) as [n0| |e|] eqn:Hd.
    + set (n := umin n0 (blen (offered_of pos count sd))) in H.
      destruct (N.eqb_spec n 0) as [Hz|Hnz].
      { symmetry in H. apply (Hfault EvWZ BrokenPipe eq_refl H). }
      apply IH in H. destruct H as (wr & pre & W1 & W2 & W3 & W4 & W5 & W6).
      cbn [sink_acc wscript fscript wcalls] in W5, W6.
      exists (wr ++ [EvW n]).
      assert (Hb : ev_bytes (wr ++ [EvW n]) = n + ev_bytes wr)
        by (rewrite ev_bytes_app; cbn [ev_bytes]; lia).
      assert (Hf : forallb is_evw (wr ++ [EvW n]) = true)
        by (rewrite forallb_app, W1; reflexivity).
      assert (Hlen : length (wr ++ [EvW n]) = S (length wr))
        by (rewrite app_length; cbn [length]; lia).
      destruct o.
      * (* SOk: the script may have run out *)
        destruct W6 as (V1 & V2 & V3 & V4 & V5).
        exists (firstn 1 (wscript k) ++ pre).
        split; [exact Hf|]. split; [lia|]. split.
        { apply Forall_app. split; [|exact W3].
          unfold wdir_of in Hd. destruct (wscript k) as [|d0 t]; cbn [firstn]; constructor; [|constructor].
          subst d0. discriminate. }
        split.
        { rewrite app_length, Hlen. destruct (wscript k); cbn [firstn length]; lia. }
        split; [exact W5|].
        split; [rewrite V1, <- app_assoc; reflexivity|].
        split; [rewrite <- app_assoc, <- V2; apply hd_tl_split|].
        split; [rewrite Hlen; lia|]. split; [exact V4|exact V5].
      * destruct W6 as (h & V1 & V2). exists pre.
        split; [exact Hf|]. split; [lia|]. split; [exact W3|]. split; [lia|]. split; [exact W5|].
        exists h. split; [rewrite V1, <- !app_assoc; reflexivity|exact V2].
      * destruct W6 as (h & V1 & V2). exists pre.
        split; [exact Hf|]. split; [lia|]. split; [exact W3|]. split; [lia|]. split; [exact W5|].
        exists h. split; [rewrite V1, <- !app_assoc; reflexivity|exact V2].
      * destruct W6 as (h & V1 & V2). exists pre.
        split; [exact Hf|]. split; [lia|]. split; [exact W3|]. split; [lia|]. split; [exact W5|].
        exists h. split; [rewrite V1, <- !app_assoc; reflexivity|exact V2].
      * destruct W6 as (h & V1 & V2). exists pre.
        split; [exact Hf|]. split; [lia|]. split; [exact W3|]. split; [lia|]. split; [exact W5|].
        exists h. split; [rewrite V1, <- !app_assoc; reflexivity|exact V2].
      * (* SPending: the WP was in the script, hence so was this directive *)
        destruct W6 as (V1 & V2 & V3 & V4 & V5 & V6).
        destruct (tl_cons_inv _ _ _ _ V2) as [d Hsc].
        assert (Hdk : d = WA n0) by (unfold wdir_of in Hd; rewrite Hsc in Hd; exact Hd).
        exists (d :: pre).
        split; [exact Hf|]. split; [lia|]. split.
        { constructor; [subst d; discriminate|exact W3]. }
        split; [cbn [length]; lia|]. split; [exact W5|].
        split; [rewrite V1, <- app_assoc; reflexivity|].
        split; [exact Hsc|]. split; [cbn [length]; lia|].
        split; [rewrite Hlen; lia|]. split; [exact V5|exact V6].
    + symmetry in H. apply (Hfault EvWZ BrokenPipe eq_refl H).
    + symmetry in H. apply (Hfault EvWE e eq_refl H).
    + inversion H; subst; clear H.
      exists [], []. cbn [forallb ev_bytes length app sink_fault wscript fscript wcalls].
      repeat (split; [first [reflexivity|lia|constructor]|]).
      split; [apply (wdir_of_cons _ _ WP (fun n => ltac:(discriminate)) Hd)|].
      repeat (split; [first [reflexivity|lia]|]). reflexivity.
Qed.

(* The wake-up discipline of one poll of the WriteAll future.  If the poll answers Pending then
   either the pipe's write answered Pending (newest event EvWP, the write script lost exactly the
   accepting directives [pre] and then that WP, nothing was flushed) or the whole message had been
   handed over and the pipe's flush answered Pending (newest event EvFP, the flush script lost
   exactly that FP).  In both cases every other event [wr] of this poll is older than the Pending
   answer and is an accepted write, the sink gained exactly the bytes of those accepted writes (so
   nothing was handed over after the Pending answer), the sender is unchanged, and the call counter
   advanced by exactly the write calls made. *)
Theorem send_poll_wake : forall limit pos count sd k evs sd' k' pos' evs',
  send_poll limit pos count sd k evs = (sd', k', pos', evs', SPending) ->
  exists wr pre,
    forallb is_evw wr = true /\
    pos' = pos + ev_bytes wr /\
    sunk k' = sunk k ++ take (ev_bytes wr) (drop pos (occupied (sbuf sd))) /\
    sd' = sd /\
    Forall (fun d => d <> WP) pre /\
    ((evs' = EvWP :: wr ++ evs /\
      wscript k = pre ++ WP :: wscript k' /\ length pre = length wr /\ fscript k' = fscript k /\
      wcalls k' = wcalls k + N.of_nat (length wr) + 1 /\ pos' < count)
     \/
     (evs' = EvFP :: wr ++ evs /\
      wscript k = pre ++ wscript k' /\ (length pre <= length wr)%nat /\ fscript k = FP :: fscript k' /\
      wcalls k' = wcalls k + N.of_nat (length wr) /\ count <= pos')).
Proof.
  intros limit pos count sd k evs sd' k' pos' evs' H. unfold send_poll in H.
  destruct (poisoned sd); [discriminate H|].
  destruct (write_loop (S (N.to_nat count)) limit pos count sd k evs) as [[[[sd1 k1] pos1] evs1] o] eqn:Hw.
  pose proof (write_loop_wake _ _ _ _ _ _ _ _ _ _ _ _ Hw) as (wr & pre & W1 & W2 & W3 & W4 & W5 & W6).
  pose proof (write_loop_inv _ _ _ _ _ _ _ _ _ _ _ _ Hw) as (_ & _ & _ & I4 & _).
  assert (Hsunk : sunk k1 = sunk k ++ take (ev_bytes wr) (drop pos (occupied (sbuf sd)))).
  { rewrite I4. f_equal. f_equal. lia. }
  destruct o; try discriminate H.
  - (* write_loop finished: the flush answered Pending *)
    destruct W6 as (V1 & V2 & V3 & V4 & V5).
    destruct (fdir_of k1) eqn:Hf; try discriminate H.
    inversion H; subst sd' k' pos' evs'; clear H.
    exists wr, pre. cbn [sink_flushed sunk wscript fscript wcalls].
    split; [exact W1|]. split; [exact W2|]. split; [exact Hsunk|]. split; [exact V5|]. split; [exact W3|].
    right. split; [rewrite V1; reflexivity|]. split; [exact V2|]. split; [exact W4|].
    split; [|split; [exact V3|exact V4]].
    rewrite <- W5. unfold fdir_of in Hf. destruct (fscript k1) as [|d t]; [discriminate Hf|].
    subst d. reflexivity.
  - (* the write answered Pending *)
    destruct W6 as (V1 & V2 & V3 & V4 & V5 & V6).
    inversion H; subst sd' k' pos' evs'; clear H.
    exists wr, pre.
    split; [exact W1|]. split; [exact W2|]. split; [exact Hsunk|]. split; [exact V6|]. split; [exact W3|].
    left. split; [exact V1|]. split; [exact V2|]. split; [exact V3|]. split; [exact W5|].
    split; [exact V4|exact V5].
Qed.

(* the Pending answer is the newest event of the poll, and it came from the script *)
Corollary send_poll_pending_head : forall limit pos count sd k evs sd' k' pos' evs',
  send_poll limit pos count sd k evs = (sd', k', pos', evs', SPending) ->
  (exists r, evs' = EvWP :: r /\ In WP (wscript k)) \/ (exists r, evs' = EvFP :: r /\ In FP (fscript k)).
Proof.
  intros limit pos count sd k evs sd' k' pos' evs' H.
  destruct (send_poll_wake _ _ _ _ _ _ _ _ _ _ H) as (wr & pre & _ & _ & _ & _ & _ & [C|C]).
  - left. destruct C as (E1 & E2 & _). exists (wr ++ evs). split; [exact E1|].
    rewrite E2. apply in_or_app. right. left. reflexivity.
  - right. destruct C as (E1 & _ & _ & E2 & _). exists (wr ++ evs). split; [exact E1|].
    rewrite E2. left. reflexivity.
Qed.

Corollary send_poll_no_pending : forall limit pos count sd k evs sd' k' pos' evs' o,
  ~ In WP (wscript k) -> ~ In FP (fscript k) ->
  send_poll limit pos count sd k evs = (sd', k', pos', evs', o) -> o <> SPending.
Proof.
  intros limit pos count sd k evs sd' k' pos' evs' o Hw Hf H ->.
  destruct (send_poll_pending_head _ _ _ _ _ _ _ _ _ _ H) as [(r & _ & Hin)|(r & _ & Hin)]; contradiction.
Qed.

(* the events of one poll: exactly one Pending answer when the poll answers Pending, none otherwise *)
Lemma send_poll_events : forall limit pos count sd k evs sd' k' pos' evs' o,
  send_poll limit pos count sd k evs = (sd', k', pos', evs', o) ->
  exists new, evs' = new ++ evs /\
    pend_count new = (match o with SPending => 1 | _ => 0 end)%nat.
Proof.
  intros limit pos count sd k evs sd' k' pos' evs' o H. unfold send_poll in H.
  destruct (poisoned sd).
  { inversion H; subst. exists []. split; reflexivity. }
  destruct (write_loop (S (N.to_nat count)) limit pos count sd k evs) as [[[[sd1 k1] pos1] evs1] o1] eqn:Hw.
  pose proof (write_loop_wake _ _ _ _ _ _ _ _ _ _ _ _ Hw) as (wr & pre & W1 & _ & _ & _ & _ & W6).
  pose proof (pend_count_evw wr W1) as Hc.
  assert (Hother : forall h, evs1 = h ++ wr ++ evs -> pend_count h = 0%nat ->
            exists new, evs1 = new ++ evs /\ pend_count new = 0%nat).
  { intros h E1 E2. exists (h ++ wr). split; [rewrite E1, <- app_assoc; reflexivity|].
    rewrite pend_count_app, E2, Hc. reflexivity. }
  destruct o1.
  - destruct W6 as (V1 & _). subst evs1.
    destruct (fdir_of k1); inversion H; subst; clear H.
    + exists (EvFO :: wr). split; [reflexivity|]. change (EvFO :: wr) with ([EvFO] ++ wr).
      rewrite pend_count_app, Hc. reflexivity.
    + exists (EvFE :: wr). split; [reflexivity|]. change (EvFE :: wr) with ([EvFE] ++ wr).
      rewrite pend_count_app, Hc. reflexivity.
    + exists (EvFP :: wr). split; [reflexivity|]. change (EvFP :: wr) with ([EvFP] ++ wr).
      rewrite pend_count_app, Hc. reflexivity.
  - destruct W6 as (h & V1 & V2). inversion H; subst; clear H. exact (Hother h eq_refl V2).
  - destruct W6 as (h & V1 & V2). inversion H; subst; clear H. exact (Hother h eq_refl V2).
  - destruct W6 as (h & V1 & V2). inversion H; subst; clear H. exact (Hother h eq_refl V2).
  - destruct W6 as (h & V1 & V2). inversion H; subst; clear H. exact (Hother h eq_refl V2).
  - destruct W6 as (V1 & _). inversion H; subst; clear H.
    exists (EvWP :: wr). split; [reflexivity|]. change (EvWP :: wr) with ([EvWP] ++ wr).
    rewrite pend_count_app, Hc. reflexivity.
Qed.

(* the scripts only shrink: no Pending directive appears from nowhere *)
Lemma send_poll_scripts : forall limit pos count sd k evs sd' k' pos' evs' o,
  send_poll limit pos count sd k evs = (sd', k', pos', evs', o) ->
  (forall d, In d (wscript k') -> In d (wscript k)) /\ (forall d, In d (fscript k') -> In d (fscript k)).
Proof.
  intros limit pos count sd k evs sd' k' pos' evs' o H. unfold send_poll in H.
  destruct (poisoned sd).
  { inversion H; subst. split; intros d Hd; exact Hd. }
  destruct (write_loop (S (N.to_nat count)) limit pos count sd k evs) as [[[[sd1 k1] pos1] evs1] o1] eqn:Hw.
  pose proof (write_loop_inv _ _ _ _ _ _ _ _ _ _ _ _ Hw) as (_ & _ & _ & _ & _ & _ & (pre & I7) & I8 & _).
  assert (Hk1 : (forall d, In d (wscript k1) -> In d (wscript k)) /\
                (forall d, In d (fscript k1) -> In d (fscript k))).
  { split; intros d Hd; [rewrite I7; apply in_or_app; right; exact Hd|rewrite <- I8; exact Hd]. }
  assert (Hfl : (forall d, In d (wscript (sink_flushed k1)) -> In d (wscript k)) /\
                (forall d, In d (fscript (sink_flushed k1)) -> In d (fscript k))).
  { cbn [sink_flushed wscript fscript]. split; [exact (proj1 Hk1)|].
    intros d Hd. apply (proj2 Hk1). apply in_tl. exact Hd. }
  destruct o1; try (inversion H; subst; exact Hk1).
  destruct (fdir_of k1); inversion H; subst; exact Hfl.
Qed.

(* The WriteAll future polled to completion: the number of polls counted is the number of Pending
   answers of the pipe (EvWP / EvFP among the new events) plus the one poll that completes it —
   no poll answers Pending on its own. *)
Theorem asend_poll_count : forall fuel limit polls pos count sd k evs sd' k' polls' evs' o,
  asend_poll fuel limit polls pos count sd k evs = (sd', k', polls', evs', o) ->
  o <> SPending /\
  exists new, evs' = new ++ evs /\
    polls' <= polls + N.of_nat (pend_count new) + 1 /\
    (o <> SHang -> polls' = polls + N.of_nat (pend_count new) + 1).
Proof.
  induction fuel as [|fuel IH]; intros limit polls pos count sd k evs sd' k' polls' evs' o H.
  - cbn [asend_poll] in H. inversion H; subst; clear H. split; [discriminate|].
    exists []. split; [reflexivity|]. split; [lia|]. intros D. contradiction.
  - rewrite asend_poll_turn in H.
    destruct (limit <=? polls).
    { inversion H; subst; clear H. split; [discriminate|].
      exists []. split; [reflexivity|]. split; [lia|]. intros D. contradiction. }
    destruct (send_poll limit pos count sd k evs) as [[[[sd1 k1] pos1] evs1] o1] eqn:Hp.
    destruct (send_poll_events _ _ _ _ _ _ _ _ _ _ _ Hp) as (new1 & E1 & E2).
    destruct o1.
    6:{ apply IH in H. destruct H as (Hn & new & F1 & F2 & F3). split; [exact Hn|].
        exists (new ++ new1). split; [rewrite F1, E1, app_assoc; reflexivity|].
        rewrite pend_count_app, E2. split; [lia|]. intros Ho. specialize (F3 Ho). lia. }
    all: inversion H; subst sd' k' polls' evs' o; clear H; (split; [discriminate|]);
      exists new1; (split; [exact E1|]); rewrite E2; split; [lia|intros _; lia].
Qed.

(* Corollary: with no WP in the write script and no FP in the flush script the WriteAll future is
   completed by its first poll: exactly one poll is counted and the result is that of send_poll. *)
Corollary asend_poll_no_pending_one_poll : forall fuel limit polls pos count sd k evs sd' k' polls' evs' o,
  ~ In WP (wscript k) -> ~ In FP (fscript k) -> polls < limit ->
  asend_poll (S fuel) limit polls pos count sd k evs = (sd', k', polls', evs', o) ->
  polls' = polls + 1 /\ o <> SPending /\
  exists pos', send_poll limit pos count sd k evs = (sd', k', pos', evs', o).
Proof.
  intros fuel limit polls pos count sd k evs sd' k' polls' evs' o Hw Hf Hl H.
  rewrite asend_poll_turn in H.
  destruct (N.leb_spec limit polls) as [Hl1|_]; [lia|].
  destruct (send_poll limit pos count sd k evs) as [[[[sd1 k1] pos1] evs1] o1] eqn:Hp.
  pose proof (send_poll_no_pending _ _ _ _ _ _ _ _ _ _ _ Hw Hf Hp) as Hn.
  destruct o1; try contradiction; inversion H; subst; clear H;
    (split; [reflexivity|]); (split; [discriminate|]); exists pos1; reflexivity.
Qed.

Section WakeSendMsg.
  Variable size_f : bytes -> res N.
  Variable I : Type.
  Variable emplace_f : I -> N -> bytes -> bytes * res unit.

  (* one whole async message on a pipe that never answers Pending: at most two polls are counted
     (alloc().await and the WriteAll future), and exactly two whenever the pipe was reached with an
     answer (SOk or an io error); the scripts only shrink *)
  Theorem asend_one_no_pending : forall fuel limit polls i sd k sd' k' polls' evs' o,
    ~ In WP (wscript k) -> ~ In FP (fscript k) ->
    asend_one size_f I emplace_f fuel limit polls i sd k = (sd', k', polls', evs', o) ->
    o <> SPending /\ polls' <= polls + 2 /\
    ((o = SOk \/ exists e, o = SIo e) -> polls' = polls + 2) /\
    pend_count evs' = 0%nat /\
    ~ In WP (wscript k') /\ ~ In FP (fscript k').
  Proof.
    intros fuel limit polls i sd k sd' k' polls' evs' o Hw Hf H. unfold asend_one in H.
    assert (Hstay : forall sdx p ox, p <= polls + 1 -> ox <> SOk -> (forall e, ox <> SIo e) -> ox <> SPending ->
              (sdx, k, p, @nil wev, ox) = (sd', k', polls', evs', o) ->
              o <> SPending /\ polls' <= polls + 2 /\
              ((o = SOk \/ exists e, o = SIo e) -> polls' = polls + 2) /\
              pend_count evs' = 0%nat /\ ~ In WP (wscript k') /\ ~ In FP (fscript k')).
    { intros sdx p ox Hp H1 H2 H3 E. inversion E; subst sd' k' polls' evs' o; clear E.
      split; [exact H3|]. split; [lia|]. split.
      - intros [D|[e D]]; [contradiction|exfalso; exact (H2 e D)].
      - split; [reflexivity|]. split; assumption. }
    destruct (limit <=? polls).
    { refine (Hstay _ _ _ _ _ _ _ H); [lia|discriminate..]. }
    destruct (alloc (sbuf sd)) as [b1|kk pp|cc].
    2,3: refine (Hstay _ _ _ _ _ _ _ H); [lia|discriminate..].
    destruct (emplace_f i (st b1) (occupied b1)) as [occ' [u|kk pp|cc]].
    2,3: refine (Hstay _ _ _ _ _ _ _ H); [lia|discriminate..].
    destruct (size_f _) as [cnt|kk pp|cc].
    2,3: refine (Hstay _ _ _ _ _ _ _ H); [lia|discriminate..].
    destruct fuel as [|fuel].
    { cbn [asend_poll] in H. refine (Hstay _ _ _ _ _ _ _ H); [lia|discriminate..]. }
    rewrite asend_poll_turn in H.
    destruct (limit <=? polls + 1).
    { refine (Hstay _ _ _ _ _ _ _ H); [lia|discriminate..]. }
    match type of H with context [send_poll ?l ?p ?c ?s ?kk ?e] =>
      destruct (send_poll l p c s kk e) as [[[[sd1 k1] pos1] evs1] o1] eqn:Hp end.
    pose proof (send_poll_no_pending _ _ _ _ _ _ _ _ _ _ _ Hw Hf Hp) as Hn.
    destruct (send_poll_events _ _ _ _ _ _ _ _ _ _ _ Hp) as (new1 & E1 & E2).
    destruct (send_poll_scripts _ _ _ _ _ _ _ _ _ _ _ Hp) as [S1 S2].
    rewrite app_nil_r in E1. subst new1.
    destruct o1; try contradiction; inversion H; subst sd' k' polls' evs' o; clear H;
      (split; [discriminate|]); (split; [lia|]); (split; [intros _; lia|]); (split; [exact E2|]);
      (split; [intros D; exact (Hw (S1 _ D))|intros D; exact (Hf (S2 _ D))]).
  Qed.

  (* a list of messages on a pipe that never answers Pending: two polls per message whenever every
     message reached the pipe with an answer *)
  Theorem asend_many_no_pending : forall fuel limit is polls sd k outs k' polls',
    ~ In WP (wscript k) -> ~ In FP (fscript k) ->
    asend_many size_f I emplace_f fuel limit polls is sd k = (outs, k', polls') ->
    polls' <= polls + 2 * N.of_nat (length is) /\
    Forall (fun oe => fst oe <> SPending /\ pend_count (snd oe) = 0%nat) outs /\
    (Forall (fun oe => fst oe = SOk \/ exists e, fst oe = SIo e) outs -> length outs = length is ->
     polls' = polls + 2 * N.of_nat (length is)).
  Proof.
    intros fuel limit is. induction is as [|i r IH]; intros polls sd k outs k' polls' Hw Hf H.
    - cbn [asend_many] in H. inversion H; subst. cbn [length]. split; [lia|]. split; [constructor|].
      intros _ _. lia.
    - cbn [asend_many] in H.
      destruct (asend_one size_f I emplace_f fuel limit polls i sd k) as [[[[sd1 k1] p1] evs1] o1] eqn:H1.
      destruct (asend_one_no_pending _ _ _ _ _ _ _ _ _ _ _ Hw Hf H1) as (N1 & N2 & N3 & N4 & N5 & N6).
      assert (Hev : pend_count (rev evs1) = 0%nat).
      { unfold pend_count in *. apply length_zero_iff_nil. apply length_zero_iff_nil in N4.
        destruct (filter is_pend (rev evs1)) as [|x t] eqn:Ex; [reflexivity|exfalso].
        assert (Hin : In x (filter is_pend (rev evs1))) by (rewrite Ex; left; reflexivity).
        apply filter_In in Hin. destruct Hin as [Hin Hx]. apply in_rev in Hin.
        assert (Hin2 : In x (filter is_pend evs1)) by (apply filter_In; split; assumption).
        rewrite N4 in Hin2. exact Hin2. }
      assert (Hgo : forall outs2 k2 p2,
                asend_many size_f I emplace_f fuel limit p1 r sd1 k1 = (outs2, k2, p2) ->
                (outs, k', polls') = ((o1, rev evs1) :: outs2, k2, p2) ->
                polls' <= polls + 2 * N.of_nat (length (i :: r)) /\
                Forall (fun oe => fst oe <> SPending /\ pend_count (snd oe) = 0%nat) outs /\
                (Forall (fun oe => fst oe = SOk \/ exists e, fst oe = SIo e) outs -> length outs = length (i :: r) ->
                 polls' = polls + 2 * N.of_nat (length (i :: r)))).
      { intros outs2 k2 p2 H2 E. inversion E; subst outs k' polls'; clear E.
        destruct (IH _ _ _ _ _ _ N5 N6 H2) as (J1 & J2 & J3). cbn [length].
        split; [lia|]. split; [constructor; [cbn [fst snd]; split; assumption|exact J2]|].
        intros Hall Hlen. inversion Hall as [|x l Hx Hl]; subst. cbn [fst] in Hx.
        specialize (N3 Hx). cbn [length] in Hlen. specialize (J3 Hl ltac:(lia)). lia. }
      destruct (asend_many size_f I emplace_f fuel limit p1 r sd1 k1) as [[outs2 k2] p2] eqn:H2.
      cbn [fst snd] in H.
      destruct o1; try (apply (Hgo outs2 k2 p2 eq_refl); symmetry; exact H).
      (* SHang: the run stops *)
      inversion H; subst outs k' polls'; clear H. cbn [length].
      split; [lia|]. split; [constructor; [cbn [fst snd]; split; [discriminate|exact Hev]|constructor]|].
      intros Hall _. inversion Hall as [|x l Hx Hl]; subst. cbn [fst] in Hx.
      destruct Hx as [D|[e D]]; discriminate D.
  Qed.
End WakeSendMsg.

(* ================================================================== part 3: the composed system *)

Section WakeSysRaw.
  Variable size_f : bytes -> res N.
  Variable I : Type.
  Variable emplace_f : I -> N -> bytes -> bytes * res unit.

  Lemma ps_idle_S fuel spur i rest sd r :
    sys_poll_send size_f I emplace_f (S fuel) spur (TIdle I (i :: rest)) sd r =
    match alloc (sbuf sd) with
    | Ok b1 =>
        match emplace_f i (st b1) (occupied b1) with
        | (occ', Ok _) =>
            match size_f (occupied {| data := take (st b1) (data b1) ++ occ' ++ drop (en b1) (data b1);
                                      st := st b1; en := en b1 |}) with
            | Ok count =>
                sys_poll_send size_f I emplace_f fuel spur (TWriting I rest 0 count)
                  {| sbuf := {| data := take (st b1) (data b1) ++ occ' ++ drop (en b1) (data b1);
                                st := st b1; en := en b1 |}; poisoned := poisoned sd |} r
            | _ => (TDone I SPanic, sd, r)
            end
        | (_, Err kk p) => (TDone I (SEmplace kk p), sd, r)
        | (_, Crash _) => (TDone I SPanic, sd, r)
        end
    | _ => (TDone I SPanic, sd, r)
    end.
  Proof. reflexivity. Qed.

  (* One poll of the sending task, any fuel, any state, no invariant needed.  If the poll leaves the
     task unfinished then the task is suspended inside the write of a message (TWriting with bytes
     left, sender not poisoned) and either the poll was given the spurious flag and did not touch
     the ring at all, or the ring it leaves — the ring at the moment of its last write attempt,
     nothing is done after that attempt — has no free byte.  A poll never stops between messages
     and never stops for a reason of its own. *)
  Lemma sys_poll_send_wake : forall fuel spur t sd r t' sd' r',
    sys_poll_send size_f I emplace_f fuel spur t sd r = (t', sd', r') ->
    sender_done I t' = false ->
    (exists rest pos count, t' = TWriting I rest pos count /\ pos < count) /\
    poisoned sd' = false /\ rcap r' = rcap r /\ closed r' = closed r /\
    ((spur = true /\ r' = r) \/ rcap r' <= blen (rbytes r')).
  Proof.
    induction fuel as [|fuel IH]; intros spur t sd r t' sd' r' H Hnd.
    { cbn [sys_poll_send] in H. inversion H; subst. discriminate Hnd. }
    destruct t as [is|rest pos count|o].
    - destruct is as [|i rest].
      { cbn [sys_poll_send] in H. inversion H; subst. discriminate Hnd. }
      rewrite ps_idle_S in H.
      destruct (alloc (sbuf sd)) as [b1|kk pp|cc]; try (inversion H; subst; discriminate Hnd).
      destruct (emplace_f i (st b1) (occupied b1)) as [occ' [u|kk pp|cc]];
        try (inversion H; subst; discriminate Hnd).
      destruct (size_f _) as [cnt|kk pp|cc]; try (inversion H; subst; discriminate Hnd).
      exact (IH _ _ _ _ _ _ _ H Hnd).
    - rewrite ps_writing in H.
      destruct (poisoned sd) eqn:Hpo; [inversion H; subst; discriminate Hnd|].
      destruct (N.ltb_spec pos count) as [Hlt|Hge].
      2:{ exact (IH _ _ _ _ _ _ _ H Hnd). }
      destruct spur.
      { inversion H; subst t' sd' r'; clear H.
        split; [exists rest, pos, count; split; [reflexivity|exact Hlt]|].
        split; [exact Hpo|]. split; [reflexivity|]. split; [reflexivity|]. left. split; reflexivity. }
      destruct (N.eqb_spec (rcap r - blen (rbytes r)) 0) as [Hz|Hnz].
      { inversion H; subst t' sd' r'; clear H.
        split; [exists rest, pos, count; split; [reflexivity|exact Hlt]|].
        split; [exact Hpo|]. split; [reflexivity|]. split; [reflexivity|]. right. lia. }
      destruct (IH _ _ _ _ _ _ _ H Hnd) as (J1 & J2 & J3 & J4 & J5).
      cbn [rcap closed] in J3, J4.
      split; [exact J1|]. split; [exact J2|]. split; [exact J3|]. split; [exact J4|].
      destruct J5 as [[D _]|J5]; [discriminate D|right; exact J5].
    - cbn [sys_poll_send] in H. inversion H; subst. discriminate Hnd.
  Qed.

  Variable validate_f : N -> bytes -> res unit.

  (* One poll of the receiving task, any fuel, any state, no invariant needed.  If the poll leaves
     the task unfinished then the task is registered as suspended in its read and either the poll
     was given the spurious flag and did not touch the ring, or the ring it leaves — the ring at
     the moment of its last read attempt — is empty and not closed. *)
  Lemma sys_poll_recv_wake : forall fuel spur pend b r del b' pend' r' del',
    sys_poll_recv validate_f size_f fuel spur pend b r del = (None, b', pend', r', del') ->
    pend' = true /\ rcap r' = rcap r /\ closed r' = closed r /\
    ((spur = true /\ r' = r) \/ (rbytes r' = [] /\ closed r' = false)).
  Proof.
    induction fuel as [|fuel IH]; intros spur pend b r del b' pend' r' del' H.
    { cbn [sys_poll_recv] in H. discriminate H. }
    rewrite poll_recv_S in H.
    destruct (if pend then Err InsufficientSize 0 else validate_f (st b) (occupied b)) as [u|k p|cc];
      try discriminate H.
    - destruct (drop_guard size_f b) as [b2|kk pp|c2]; try discriminate H.
      exact (IH _ _ _ _ _ _ _ _ _ H).
    - destruct k; try discriminate H.
      unfold recv_read in H.
      destruct (read_prepare b) as [b1|]; [|discriminate H].
      destruct spur.
      { inversion H; subst. split; [reflexivity|]. split; [reflexivity|]. split; [reflexivity|].
        left. split; reflexivity. }
      destruct (N.eqb_spec (blen (rbytes r)) 0) as [Hz|Hnz].
      { destruct (closed r) eqn:Hc; [discriminate H|].
        inversion H; subst. split; [reflexivity|]. split; [reflexivity|]. split; [exact Hc|].
        right. split; [apply IoRecvFacts.blen_0_nil; exact Hz|exact Hc]. }
      destruct (advance _ _) as [b2|kk pp|c2]; try discriminate H.
      destruct (IH _ _ _ _ _ _ _ _ _ H) as (J1 & J2 & J3 & J4).
      cbn [rcap closed] in J2, J3.
      split; [exact J1|]. split; [exact J2|]. split; [exact J3|].
      destruct J4 as [[D _]|J4]; [discriminate D|right; exact J4].
  Qed.
End WakeSysRaw.

Section WakeSys.
  Variable A : N.
  Variable validate_f : N -> bytes -> res unit.
  Variable size_f : bytes -> res N.
  Variable I : Type.
  Variable emplace_f : I -> N -> bytes -> bytes * res unit.
  Hypothesis H_total : forall a bs, is_crash (validate_f a bs) = false.
  Hypothesis H_size : forall a bs, validate_f a bs = Ok tt ->
    exists n, size_f bs = Ok n /\ 0 < n /\ n <= blen bs.
  Hypothesis H_A : 0 < A.
  Variable is0 : list I.
  Variables CAPs CAPr c : N.
  Variable fill_s : N.
  Hypothesis H_canon : Forall (canon validate_f size_f A) (ms size_f I emplace_f is0 CAPs fill_s).
  Hypothesis H_fit : forall m, In m (ms size_f I emplace_f is0 CAPs fill_s) -> blen m <= CAPr.
  Hypothesis H_nil : ms size_f I emplace_f is0 CAPs fill_s <> [] \/
    (0 < CAPr /\ forall a, a mod A = 0 -> exists p, validate_f a [] = Err InsufficientSize p).

  Let inv := sys_inv A size_f I emplace_f is0 CAPs CAPr c fill_s.
  Let step := sys_step validate_f size_f I emplace_f.
  Let MU := mu size_f I emplace_f is0 CAPs fill_s.
  Let fok := fuel_ok size_f I emplace_f is0 CAPs CAPr fill_s.

  Lemma wake_inv_step fuel who spur y : fok fuel -> inv y -> inv (step fuel who spur y).
  Proof.
    intros Hf Hi.
    exact (sys_step_inv A validate_f size_f I emplace_f H_total H_size H_A is0 CAPs CAPr c fill_s
             H_canon H_fit H_nil fuel who spur y Hf Hi).
  Qed.

  (* A poll of the unfinished sending task that leaves it unfinished leaves it suspended inside a
     write (TWriting with bytes left).  Either the poll was spurious and left the ring as it was, or
     the ring is FULL.  In the second case the receiving task is not finished, and (ring capacity at
     least 1) its next non-spurious poll strictly decreases the variant mu and leaves the ring empty
     — the condition the sender waits on is one that a poll of the other task changes. *)
  Theorem sys_send_suspended : forall fuel spur y, fok fuel -> inv y ->
    sender_done I (y_send I y) = false ->
    sender_done I (y_send I (step fuel true spur y)) = false ->
    (exists rest pos count, y_send I (step fuel true spur y) = TWriting I rest pos count /\ pos < count) /\
    ((spur = true /\ rbytes (y_ring I (step fuel true spur y)) = rbytes (y_ring I y)) \/
     (blen (rbytes (y_ring I (step fuel true spur y))) = c /\ rcap (y_ring I (step fuel true spur y)) = c /\
      y_recv I (step fuel true spur y) = None /\
      (1 <= c ->
       MU (step fuel false false (step fuel true spur y)) < MU (step fuel true spur y) /\
       rbytes (y_ring I (step fuel false false (step fuel true spur y))) = []))).
  Proof.
    intros fuel spur y Hf Hi Hnd Hnd'.
    pose proof (wake_inv_step fuel true spur y Hf Hi) as Hi'.
    set (y' := step fuel true spur y) in *.
    assert (Hraw : (exists rest pos count, y_send I y' = TWriting I rest pos count /\ pos < count) /\
                   ((spur = true /\ rbytes (y_ring I y') = rbytes (y_ring I y)) \/
                    rcap (y_ring I y') <= blen (rbytes (y_ring I y')))).
    { subst y'. unfold step, sys_step in *. rewrite Hnd in *.
      destruct (sys_poll_send size_f I emplace_f fuel spur (y_send I y) (y_sd I y) (y_ring I y))
        as [[t' sd'] r'] eqn:Hp.
      cbn [y_send y_ring rbytes rcap] in *.
      destruct (sys_poll_send_wake size_f I emplace_f _ _ _ _ _ _ _ _ Hp Hnd') as (J1 & _ & _ & _ & J5).
      split; [exact J1|]. destruct J5 as [[J5 J6]|J5]; [left; subst r'; split; [exact J5|reflexivity]|right; exact J5]. }
    destruct Hraw as [R1 R2]. split; [exact R1|].
    destruct R2 as [R2|R2]; [left; exact R2|right].
    pose proof Hi' as (u & S1 & S2 & S3 & S4 & S5 & S6 & S7).
    assert (Hfull : blen (rbytes (y_ring I y')) = c) by lia.
    assert (Hrecv : y_recv I y' = None).
    { destruct S7 as [S7|(_ & _ & S7)]; [exact S7|]. rewrite Hnd' in S7. discriminate S7. }
    split; [exact Hfull|]. split; [exact S5|]. split; [exact Hrecv|].
    intros Hc. split.
    - apply (mu_step_recv_lt A validate_f size_f I emplace_f H_total H_size H_A is0 CAPs CAPr c fill_s
               H_canon H_fit H_nil fuel y' Hf Hi' Hrecv).
      left. intros E. rewrite E in Hfull. cbn in Hfull. lia.
    - destruct (recv_step_spec A validate_f size_f I emplace_f H_total H_size H_A is0 CAPs CAPr c fill_s
                  H_canon H_fit H_nil fuel false y' _ Hf Hi' Hrecv eq_refl) as (_ & _ & _ & _ & Q).
      exact (proj1 (Q eq_refl)).
  Qed.

  (* A poll of the unfinished receiving task that leaves it unfinished leaves it registered as
     suspended in its read.  Either the poll was spurious and left the ring as it was, or the ring
     is EMPTY and NOT CLOSED.  In the second case the sending task is not finished, and (ring
     capacity at least 1) its next non-spurious poll strictly decreases the variant mu and leaves
     the ring non-empty or closed — the condition the receiver waits on is one that a poll of the
     other task changes. *)
  Theorem sys_recv_suspended : forall fuel spur y, fok fuel -> inv y ->
    y_recv I y = None ->
    y_recv I (step fuel false spur y) = None ->
    y_rpending I (step fuel false spur y) = true /\
    ((spur = true /\ y_ring I (step fuel false spur y) = y_ring I y) \/
     (rbytes (y_ring I (step fuel false spur y)) = [] /\ closed (y_ring I (step fuel false spur y)) = false /\
      sender_done I (y_send I (step fuel false spur y)) = false /\
      (1 <= c ->
       MU (step fuel true false (step fuel false spur y)) < MU (step fuel false spur y) /\
       (rbytes (y_ring I (step fuel true false (step fuel false spur y))) <> [] \/
        closed (y_ring I (step fuel true false (step fuel false spur y))) = true)))).
  Proof.
    intros fuel spur y Hf Hi Hnone Hnone'.
    pose proof (wake_inv_step fuel false spur y Hf Hi) as Hi'.
    set (y' := step fuel false spur y) in *.
    assert (Hraw : y_rpending I y' = true /\
                   ((spur = true /\ y_ring I y' = y_ring I y) \/
                    (rbytes (y_ring I y') = [] /\ closed (y_ring I y') = false))).
    { subst y'. unfold step, sys_step in *. rewrite Hnone in *.
      destruct (sys_poll_recv validate_f size_f fuel spur (y_rpending I y) (y_rb I y) (y_ring I y) (y_delivered I y))
        as [[[[o b'] pend'] r'] del'] eqn:Hp.
      cbn [y_recv y_ring y_rpending] in *. subst o.
      destruct (sys_poll_recv_wake size_f validate_f _ _ _ _ _ _ _ _ _ _ Hp) as (J1 & _ & _ & J4).
      split; [exact J1|exact J4]. }
    destruct Hraw as [R1 R2]. split; [exact R1|].
    destruct R2 as [R2|[R2 R3]]; [left; exact R2|right].
    pose proof Hi' as (u & S1 & S2 & S3 & S4 & S5 & S6 & S7).
    assert (Hnd : sender_done I (y_send I y') = false) by (rewrite <- S4; exact R3).
    split; [exact R2|]. split; [exact R3|]. split; [exact Hnd|].
    intros Hc.
    assert (Hfree : blen (rbytes (y_ring I y')) < c) by (rewrite R2; cbn; lia).
    split.
    - apply (mu_step_send_lt A validate_f size_f I emplace_f H_total H_size H_A is0 CAPs CAPr c fill_s
               H_fit H_nil fuel y' Hf Hi' Hnd). rewrite S5. exact Hfree.
    - pose proof (wake_inv_step fuel true false y' Hf Hi') as Hi''.
      destruct (send_step_spec A validate_f size_f I emplace_f H_total H_size H_A is0 CAPs CAPr c fill_s
                  H_fit H_nil fuel false y' _ Hf Hi' Hnd eq_refl) as (_ & add & _ & Q2 & _ & _ & _ & Q6 & _).
      fold step in Q2, Q6.
      destruct (Q6 eq_refl Hfree) as [Q|Q].
      + left. rewrite Q2, R2. cbn [app]. exact Q.
      + right. destruct Hi'' as (u2 & _ & _ & _ & T4 & _). rewrite T4. exact Q.
  Qed.
End WakeSys.
