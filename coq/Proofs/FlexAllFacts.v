(* FlexAllFacts.v — the FlexVec push theorems (C12, C13) for EVERY item type: the three premises on
   the item emplacer that Proofs/FlexOpsFacts.v carries (Section Push, Section PushRejected) are
   discharged from the emplacement theorems of Proofs/EmplaceUnsizedFacts.v, for the class of
   emplacer expressions those theorems cover: well typed, every string literal UTF-8. *)
From Coq Require Import List NArith Bool Lia ZArith ZifyN ZifyBool ZifyNat.
From Flatty.Model Require Import Base Ty Layout Validate View Emplace Ops.
From Flatty.Proofs Require Import ArithFacts LayoutFacts BytesFacts ValidateFacts ViewFacts EmplaceSpec
  FlexOpsFacts EmplaceUnsizedFacts AssignValidFacts AssignSpineFacts.
Open Scope N_scope.

(* the class of expressions: every string literal is well-formed UTF-8 (a Rust &str always is) *)
Definition utf8_ok (i : init) : Prop := utf8_init i = true.

Lemma narrow_flex_inv et l : narrow_ty (TFlex et l) = true -> narrow_ty et = true /\ narrow l = true.
Proof. cbn [narrow_ty]. intros H. apply andb_true_iff in H. exact H. Qed.

Section ItemPremises.
  Variables (pv : option N) (et : ty).
  Hypothesis Hwt : wf et = true.
  Hypothesis Hnt : narrow_ty et = true.

  Lemma all_item_ok : forall i pa payload payload', utf8_ok i -> init_ok et i = true ->
    emplace pv et i pa payload = (payload', Ok tt) ->
    blen payload' = blen payload /\ validate et pa payload' = Ok tt /\
    (exists v, view et payload' = Ok v /\ spec_value et i = Some (strip v)).
  Proof.
    intros i pa payload payload' Hu Hi Hem.
    destruct (emplace_reads_back et i Hwt Hnt Hi Hu pv pa payload payload' Hem) as (H1 & H2 & H3 & _).
    auto.
  Qed.

  Lemma all_item_len : forall i pa payload, utf8_ok i -> init_ok et i = true ->
    is_crash (snd (emplace pv et i pa payload)) = false ->
    blen (fst (emplace pv et i pa payload)) = blen payload.
  Proof. intros i pa payload Hu Hi _. exact (emplace_keeps_length et i Hwt Hnt Hi Hu pv pa payload). Qed.

  Lemma all_item_nocrash : forall i pa payload, utf8_ok i -> init_ok et i = true ->
    is_crash (snd (emplace pv et i pa payload)) = false.
  Proof. intros i pa payload Hu Hi. exact (emplace_never_crashes et i Hwt Hnt Hi Hu pv pa payload). Qed.
End ItemPremises.

(* a history of push / pop / truncate / clear whose pushed expressions are well typed with UTF-8
   string literals *)
Definition simple_op_u (et : ty) (op : fop) : Prop := simple_op_g et utf8_ok op.

Lemma simple_op_u_def et op :
  simple_op_u et op <->
  match op with
  | FPush i => init_ok et i = true /\ utf8_init i = true
  | FPop | FTruncate _ | FClear => True
  | _ => False
  end.
Proof.
  unfold simple_op_u, simple_op_g, utf8_ok. destruct op as [i| |n| |j vo|j x]; cbn [simple_op]; tauto.
Qed.

Section FlexAll.
  Variables (pv : option N) (et : ty) (l : intty) (a : N).
  Hypothesis Hw : wf (TFlex et l) = true.
  Hypothesis Hnt : narrow_ty (TFlex et l) = true.
  Local Notation t := (TFlex et l).

  Let Hwt : wf et = true := proj1 (wf_flex_inv et l Hw).
  Let Hnet : narrow_ty et = true := proj1 (narrow_flex_inv et l Hnt).
  Let Hnar : narrow l = true := proj2 (narrow_flex_inv et l Hnt).

  (* FlexVec::push(i) on a valid image, every item type *)
  Theorem flex_push_all i bs vs k : init_ok et i = true -> utf8_init i = true ->
    validate t a bs = Ok tt -> view t bs = Ok (VNode 0 vs) -> size_m t bs = Ok k ->
    let r := flex_op pv t a (FPush i) bs in
    blen (fst r) = blen bs /\ validate t a (fst r) = Ok tt /\
    ((snd r = ODone /\
      exists vs' v, view t (fst r) = Ok (VNode 0 (vs' ++ [v])) /\
        map strip vs' = map strip vs /\ removelast vs' = removelast vs /\
        spec_value et i = Some (strip v) /\
        exists p, p + isize l <= k /\ take p (fst r) = take p bs /\
          take (k - (p + isize l)) (drop (p + isize l) (fst r)) =
          take (k - (p + isize l)) (drop (p + isize l) bs))
     \/
     (exists kd, snd r = OErr kd /\
        ((kd = InsufficientSize /\ fst r = bs) \/
         exists pa payload p, snd (emplace pv et i pa payload) = Err kd p) /\
        take k (fst r) = take k bs /\ size_m t (fst r) = Ok k /\
        exists vs', view t (fst r) = Ok (VNode 0 vs') /\ map strip vs' = map strip vs)).
  Proof.
    intros Hi Hu.
    exact (flex_push_ok_g pv et l a Hw Hnar utf8_ok (all_item_ok pv et Hwt Hnet) (all_item_len pv et Hwt Hnet)
             (all_item_nocrash pv et Hwt Hnet) i bs vs k Hu Hi).
  Qed.

  (* a push on a valid image reports completion or an error, never a panic *)
  Theorem flex_push_outcomes_all i bs : init_ok et i = true -> utf8_init i = true ->
    validate t a bs = Ok tt ->
    snd (flex_op pv t a (FPush i) bs) = ODone \/ exists kd, snd (flex_op pv t a (FPush i) bs) = OErr kd.
  Proof.
    intros Hi Hu.
    exact (flex_push_outcomes_g pv et l a Hw Hnar utf8_ok (all_item_ok pv et Hwt Hnet) (all_item_len pv et Hwt Hnet)
             (all_item_nocrash pv et Hwt Hnet) i bs Hu Hi).
  Qed.

  Theorem flex_push_rejected_all i bs vs k kd : init_ok et i = true -> utf8_init i = true ->
    validate t a bs = Ok tt -> view t bs = Ok (VNode 0 vs) -> size_m t bs = Ok k ->
    snd (flex_op pv t a (FPush i) bs) = OErr kd ->
    let bs' := fst (flex_op pv t a (FPush i) bs) in
    blen bs' = blen bs /\ validate t a bs' = Ok tt /\ size_m t bs' = Ok k /\ take k bs' = take k bs /\
    exists vs', view t bs' = Ok (VNode 0 vs') /\ map strip vs' = map strip vs /\ length vs' = length vs.
  Proof.
    intros Hi Hu.
    exact (flex_push_rejected_g pv et l a Hw Hnar utf8_ok (all_item_ok pv et Hwt Hnet) (all_item_len pv et Hwt Hnet)
             (all_item_nocrash pv et Hwt Hnet) i bs vs k kd Hu Hi).
  Qed.

  Theorem flex_push_rejected_then_same_all i bs kd ops : init_ok et i = true -> utf8_init i = true ->
    validate t a bs = Ok tt -> snd (flex_op pv t a (FPush i) bs) = OErr kd ->
    Forall shrink_op ops ->
    let bs' := fst (flex_op pv t a (FPush i) bs) in
    let r := flex_run pv et l a ops bs in
    let r' := flex_run pv et l a ops bs' in
    snd r' = snd r /\ blen (fst r') = blen (fst r) /\
    validate t a (fst r) = Ok tt /\ validate t a (fst r') = Ok tt /\
    size_m t (fst r') = size_m t (fst r) /\
    exists vs1 vs2, view t (fst r) = Ok (VNode 0 vs1) /\ view t (fst r') = Ok (VNode 0 vs2) /\
      map strip vs2 = map strip vs1.
  Proof.
    intros Hi Hu.
    exact (flex_push_rejected_then_same_g pv et l a Hw Hnar utf8_ok (all_item_ok pv et Hwt Hnet)
             (all_item_len pv et Hwt Hnet) (all_item_nocrash pv et Hwt Hnet) i bs kd ops Hu Hi).
  Qed.

  (* every finite history of push / pop / truncate / clear, every item type *)
  Theorem flex_history_all ops : forall bs vs, Forall (simple_op_u et) ops ->
    validate t a bs = Ok tt -> view t bs = Ok (VNode 0 vs) ->
    let r := flex_run pv et l a ops bs in
    blen (fst r) = blen bs /\ validate t a (fst r) = Ok tt /\
    exists vs', view t (fst r) = Ok (VNode 0 vs') /\
      map strip vs' = flex_spec_run et ops (snd r) (map strip vs) /\
      flex_spec_outs et ops (snd r) (map strip vs).
  Proof.
    exact (flex_op_history_g pv et l a Hw Hnar utf8_ok (all_item_ok pv et Hwt Hnet) (all_item_len pv et Hwt Hnet)
             (all_item_nocrash pv et Hwt Hnet) ops).
  Qed.

  (* iter_mut().nth(j) then assign_in_place(x) on the item, every item type: the slice keeps its
     length and the call reports the outcome of the assignment; when the assignment succeeds the
     result is valid and item j reads the specified content, the other items are unchanged *)
  Theorem flex_edit_assign_done_all j x bs vs : init_ok et x = true -> utf8_init x = true ->
    validate t a bs = Ok tt -> view t bs = Ok (VNode 0 vs) ->
    let r := flex_op pv t a (FEditAssign j x) bs in
    (nth_error vs (N.to_nat j) = None -> r = (bs, OPanic)) /\
    (forall v, nth_error vs (N.to_nat j) = Some v ->
       exists pa pl, validate et pa pl = Ok tt /\ view et pl = Ok v /\
         snd r = assign_out (assign_in_place pv et x pa pl) /\ blen (fst r) = blen bs /\
         is_crash (snd (assign_in_place pv et x pa pl)) = false /\
         (forall k p, snd (assign_in_place pv et x pa pl) = Err k p -> k = InsufficientSize) /\
         (snd (assign_in_place pv et x pa pl) = Ok tt ->
          exists v', view et (fst (assign_in_place pv et x pa pl)) = Ok v' /\
            spec_value et x = Some (strip v') /\
            validate t a (fst r) = Ok tt /\
            view t (fst r) = Ok (VNode 0 (splice (N.to_nat j) v' vs)))).
  Proof.
    intros Hi Hu Hv Hview r.
    destruct (flex_edit_assign_done pv et l a Hw Hnar j x bs vs) as [H1 H2]; auto.
    { intros pa pl Hvp. destruct (assign_in_place_ok et x Hwt Hnet Hi Hu pv pa pl Hvp) as (_ & A & B & _).
      split; [exact A|]. intros Hok. exact (proj1 (B Hok)). }
    split; [exact H1|]. intros v Hs. destruct (H2 v Hs) as (pa & pl & A & B & C & D & E).
    destruct (assign_in_place_ok et x Hwt Hnet Hi Hu pv pa pl A) as (F1 & _ & F3 & F4).
    exists pa, pl. split; [exact A|]. split; [exact B|]. split; [exact C|]. split; [exact D|].
    split; [exact F1|]. split; [exact F4|]. intros Hok.
    destruct (E Hok) as (v' & E1 & E2 & E3). destruct (F3 Hok) as (_ & (v2 & G1 & G2) & _).
    exists v'. rewrite E1 in G1. injection G1 as <-. auto.
  Qed.

  (* ... and whatever the outcome when a failed assignment of x leaves a valid item (the class
     fv_ok false et x of Proofs/AssignSpineFacts.v: every expression when the item type is sized or a
     container; generated initialisers whose failing emplacer keeps validity) *)
  Theorem flex_edit_assign_all j x bs vs : fv_ok false et x = true ->
    init_ok et x = true -> utf8_init x = true ->
    validate t a bs = Ok tt -> view t bs = Ok (VNode 0 vs) ->
    let r := flex_op pv t a (FEditAssign j x) bs in
    (nth_error vs (N.to_nat j) = None -> r = (bs, OPanic)) /\
    (forall v, nth_error vs (N.to_nat j) = Some v ->
       exists pa pl v', validate et pa pl = Ok tt /\ view et pl = Ok v /\
         snd r = assign_out (assign_in_place pv et x pa pl) /\
         view et (fst (assign_in_place pv et x pa pl)) = Ok v' /\
         blen (fst r) = blen bs /\ validate t a (fst r) = Ok tt /\
         view t (fst r) = Ok (VNode 0 (splice (N.to_nat j) v' vs))).
  Proof.
    intros Hfv Hi Hu.
    apply (flex_edit_assign_ok pv et l a Hw Hnar j x bs vs).
    intros pa pl Hvp. exact (assign_always_valid_spine et x Hwt Hnet Hi Hu Hfv pv pa pl Hvp).
  Qed.
End FlexAll.
