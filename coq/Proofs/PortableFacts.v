(* PortableFacts.v — C16: lossless fixed-order encoding, delegation of the operators. *)
From Coq Require Import List NArith Bool Lia ZArith ZifyN ZifyBool ZifyNat.
From Flatty.Model Require Import Base Ty Layout Validate Portable.
From Flatty.Proofs Require Import ArithFacts BytesFacts.
Open Scope N_scope.

Lemma le_digits_length n v : length (le_digits n v) = n.
Proof. revert v. induction n as [|n IH]; intros v; cbn; auto. Qed.

Lemma le_val_le_digits n : forall v, le_val (le_digits n v) = v mod 256 ^ N.of_nat n.
Proof.
  induction n as [|n IH]; intros v.
  - cbn. rewrite N.mod_1_r. reflexivity.
  - cbn [le_digits le_val]. rewrite IH.
    replace (N.of_nat (S n)) with (1 + N.of_nat n) by lia.
    rewrite N.pow_add_r. change (256 ^ 1) with 256.
    rewrite N.mod_mul_r; [reflexivity | lia | apply N.pow_nonzero; lia].
Qed.

Lemma le_digits_le_val bs : bytes_ok bs = true -> le_digits (length bs) (le_val bs) = bs.
Proof.
  induction bs as [|b r IH]; intros H; [reflexivity|].
  cbn [bytes_ok forallb] in H. rewrite andb_true_iff in H. destruct H as [Hb Hr].
  unfold byte_ok in Hb. rewrite N.ltb_lt in Hb.
  cbn [length le_digits le_val].
  replace ((b + 256 * le_val r) mod 256) with b.
  2:{ replace (b + 256 * le_val r) with (b + le_val r * 256) by lia. rewrite N.mod_add by lia. rewrite N.mod_small; auto. }
  replace ((b + 256 * le_val r) / 256) with (le_val r).
  2:{ replace (b + 256 * le_val r) with (b + le_val r * 256) by lia. rewrite N.div_add by lia. rewrite N.div_small; auto. }
  rewrite (IH Hr). reflexivity.
Qed.

Lemma le_digits_ok n : forall v, bytes_ok (le_digits n v) = true.
Proof.
  induction n as [|n IH]; intros v; [reflexivity|].
  cbn [le_digits bytes_ok forallb]. fold (bytes_ok (le_digits n (v / 256))). rewrite IH, andb_true_r.
  unfold byte_ok. rewrite N.ltb_lt. apply N.mod_lt. lia.
Qed.

Theorem enc_length be n v : blen (p_enc be n v) = n.
Proof.
  unfold p_enc, to_bytes, blen. destruct be; rewrite ?rev_length, le_digits_length; lia.
Qed.

Theorem enc_ok be n v : bytes_ok (p_enc be n v) = true.
Proof.
  unfold p_enc, to_bytes. destruct be; rewrite ?bytes_ok_rev; apply le_digits_ok.
Qed.

(* native -> portable -> native is the identity *)
Theorem dec_enc be n v : v < 256 ^ n -> p_dec be (p_enc be n v) = v.
Proof.
  intros H. unfold p_dec, p_enc, of_bytes, to_bytes.
  destruct be; rewrite ?rev_involutive; rewrite le_val_le_digits, N2Nat.id; apply N.mod_small; auto.
Qed.

(* portable -> native -> portable is the identity: every byte pattern is kept (NaN payloads included) *)
Theorem enc_dec be bs : bytes_ok bs = true -> p_enc be (blen bs) (p_dec be bs) = bs.
Proof.
  intros H. unfold p_dec, p_enc, of_bytes, to_bytes, blen. rewrite Nat2N.id. destruct be.
  - rewrite <- (rev_length bs). rewrite le_digits_le_val by (rewrite bytes_ok_rev; auto). apply rev_involutive.
  - apply le_digits_le_val; auto.
Qed.

(* big endian is the reverse of little endian *)
Theorem enc_le_be n v : p_enc true n v = rev (p_enc false n v).
Proof. reflexivity. Qed.

(* byte i of the little-endian image is digit i of the value *)
Lemma nth_le_digits n : forall v i, (i < n)%nat -> nth i (le_digits n v) 0 = (v / 256 ^ N.of_nat i) mod 256.
Proof.
  induction n as [|n IH]; intros v i Hi; [lia|].
  destruct i as [|i]; cbn [le_digits nth].
  - cbn. rewrite N.div_1_r. reflexivity.
  - rewrite IH by lia. rewrite N.div_div by (try lia; apply N.pow_nonzero; lia).
    replace (N.of_nat (S i)) with (1 + N.of_nat i) by lia. rewrite N.pow_add_r. reflexivity.
Qed.

Theorem enc_digit n v i : (i < N.to_nat n)%nat ->
  nth i (p_enc false n v) 0 = (v / 256 ^ N.of_nat i) mod 256.
Proof. intros H. unfold p_enc, to_bytes. apply nth_le_digits; auto. Qed.

(* equality of the stored bytes is equality of the values *)
Theorem enc_inj be n v1 v2 : v1 < 256 ^ n -> v2 < 256 ^ n -> p_enc be n v1 = p_enc be n v2 -> v1 = v2.
Proof.
  intros H1 H2 H. rewrite <- (dec_enc be n v1 H1), <- (dec_enc be n v2 H2). rewrite H. reflexivity.
Qed.

(* every operator gives the native type's result *)
Section Ops.
  Variables (be : bool) (n : N).
  Variable op1_n : N -> N.
  Variable op2_n : N -> N -> N.
  Variable cmp_n : N -> N -> comparison.

  Theorem op2_native a b : op2_n (p_dec be a) (p_dec be b) < 256 ^ n ->
    p_dec be (p_op2 be n op2_n a b) = op2_n (p_dec be a) (p_dec be b).
  Proof. intros H. unfold p_op2. apply dec_enc; auto. Qed.

  Theorem op1_native a : op1_n (p_dec be a) < 256 ^ n ->
    p_dec be (p_op1 be n op1_n a) = op1_n (p_dec be a).
  Proof. intros H. unfold p_op1. apply dec_enc; auto. Qed.

  Theorem op2_on_values v1 v2 : v1 < 256 ^ n -> v2 < 256 ^ n ->
    p_op2 be n op2_n (p_enc be n v1) (p_enc be n v2) = p_enc be n (op2_n v1 v2).
  Proof. intros H1 H2. unfold p_op2. rewrite !dec_enc by auto. reflexivity. Qed.

  Theorem cmp_native v1 v2 : v1 < 256 ^ n -> v2 < 256 ^ n ->
    p_cmp be cmp_n (p_enc be n v1) (p_enc be n v2) = cmp_n v1 v2.
  Proof. intros H1 H2. unfold p_cmp. rewrite !dec_enc by auto. reflexivity. Qed.
End Ops.

(* size and alignment of the descriptor; Bool *)
Theorem portable_size_align be n : ssize (TInt (p_intty be n)) = n /\ align (TInt (p_intty be n)) = 1.
Proof. split; reflexivity. Qed.

Theorem bool_validate a b : validate TBool a [b] = Ok tt <-> b <= 1.
Proof.
  unfold validate, check_align_min, aligned. cbn [align min_size ssize]. rewrite N.mod_1_r.
  cbn [N.eqb negb blen length N.of_nat bind validate_u].
  change (N.pos (Pos.of_succ_nat 0) <? 1) with false. cbn [bind].
  destruct (N.leb_spec b 1) as [H|H]; split; intros H'; auto; try discriminate; lia.
Qed.
