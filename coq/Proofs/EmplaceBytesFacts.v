(* EmplaceBytesFacts.v — emplacement keeps memory memory: when the buffer is a byte string (every
   element < 256), the padding policy does not invent a non-byte and every string literal of the
   emplacer expression is UTF-8, the buffer an emplacer leaves behind — whatever its outcome — is a
   byte string again.  For every type descriptor (no well-formedness needed) and every expression. *)
From Coq Require Import List NArith Bool Lia ZArith ZifyN ZifyBool ZifyNat.
From Flatty.Model Require Import Base Ty Layout Utf8 Validate View Emplace.
From Flatty.Proofs Require Import ArithFacts LayoutFacts BytesFacts PortableTyFacts EncFacts EmplaceUnsizedFacts.
Open Scope N_scope.

(* the padding policy writes bytes *)
Definition pv_ok (pv : option N) : Prop := match pv with Some v => v < 256 | None => True end.

Definition mbyte_ok (x : option N) : bool := match x with Some b => byte_ok b | None => true end.
Definition mbytes_ok (m : mbytes) : bool := forallb mbyte_ok m.

(* ---------- well-formed UTF-8 consists of bytes (in fact of bytes <= 244) ---------- *)

Lemma utf8_go_le244 : forall n bs pos, (length bs <= n)%nat -> utf8_go bs pos = None ->
  forallb (fun b => b <=? 244) bs = true.
Proof.
  induction n as [|n IH]; intros bs pos Hl H.
  - destruct bs as [|b r]; [reflexivity|]. cbn [length] in Hl. lia.
  - destruct bs as [|b0 r0]; [reflexivity|]. cbn [length] in Hl. cbn [utf8_go] in H.
    destruct (N.leb_spec b0 127) as [H0|H0].
    { cbn [forallb]. rewrite (IH r0 _ ltac:(lia) H). lia. }
    destruct (in_range 194 223 b0) eqn:E1.
    { destruct r0 as [|b1 r1]; [discriminate|]. destruct (cont b1) eqn:C1; [|discriminate].
      cbn [length] in Hl. cbn [forallb]. rewrite (IH r1 _ ltac:(lia) H).
      unfold cont, in_range in *. lia. }
    destruct (in_range 224 239 b0) eqn:E2.
    { destruct r0 as [|b1 [|b2 r2]]; try discriminate.
      match type of H with (if ?c then _ else _) = _ => destruct c eqn:C end; [|discriminate].
      cbn [length] in Hl. cbn [forallb]. rewrite (IH r2 _ ltac:(lia) H).
      apply andb_true_iff in C. destruct C as [C1 C2].
      assert (Hb1 : b1 <= 191).
      { destruct (b0 =? 224); [|destruct (b0 =? 237)]; unfold cont, in_range in C1; lia. }
      unfold cont, in_range in *. lia. }
    destruct (in_range 240 244 b0) eqn:E3; [|discriminate].
    destruct r0 as [|b1 [|b2 [|b3 r3]]]; try discriminate.
    match type of H with (if ?c then _ else _) = _ => destruct c eqn:C end; [|discriminate].
    cbn [length] in Hl. cbn [forallb]. rewrite (IH r3 _ ltac:(lia) H).
    apply andb_true_iff in C. destruct C as [C12 C3]. apply andb_true_iff in C12. destruct C12 as [C1 C2].
    assert (Hb1 : b1 <= 191).
    { destruct (b0 =? 240); [|destruct (b0 =? 244)]; unfold cont, in_range in C1; lia. }
    unfold cont, in_range in *. lia.
Qed.

(* a well-formed UTF-8 string has no byte above 244 *)
Theorem utf8_le244 s : utf8_err s = None -> forallb (fun b => b <=? 244) s = true.
Proof. intros H. exact (utf8_go_le244 (length s) s 0 (le_n _) H). Qed.

Theorem utf8_bytes_ok s : utf8_err s = None -> bytes_ok s = true.
Proof.
  intros H. apply utf8_le244 in H. unfold bytes_ok.
  induction s as [|b r IH]; [reflexivity|]. cbn [forallb] in *.
  apply andb_true_iff in H. destruct H as [H1 H2]. rewrite (IH H2). unfold byte_ok. lia.
Qed.

(* ---------- integers are stored as bytes ---------- *)

Lemma bytes_ok_cons b r : bytes_ok (b :: r) = byte_ok b && bytes_ok r.
Proof. reflexivity. Qed.

Lemma le_digits_ok n : forall v, bytes_ok (le_digits n v) = true.
Proof.
  induction n as [|n IH]; intros v; [reflexivity|]. cbn [le_digits]. rewrite bytes_ok_cons, IH.
  unfold byte_ok. pose proof (N.mod_lt v 256). lia.
Qed.

Lemma to_bytes_ok be n v : bytes_ok (to_bytes be n v) = true.
Proof. unfold to_bytes. destruct be; [rewrite bytes_ok_rev|]; apply le_digits_ok. Qed.

Lemma mbytes_ok_some bs : bytes_ok bs = true -> mbytes_ok (map Some bs) = true.
Proof.
  induction bs as [|b r IH]; [reflexivity|]. rewrite bytes_ok_cons. intros H.
  apply andb_true_iff in H. destruct H as [H1 H2]. unfold mbytes_ok in *. cbn [map forallb mbyte_ok].
  rewrite H1, (IH H2). reflexivity.
Qed.

Lemma mbytes_ok_app m1 m2 : mbytes_ok (m1 ++ m2) = mbytes_ok m1 && mbytes_ok m2.
Proof. unfold mbytes_ok. apply forallb_app. Qed.

Lemma mbytes_ok_none n : mbytes_ok (repeat None n) = true.
Proof. induction n as [|n IH]; [reflexivity|]. exact IH. Qed.

Lemma mbytes_ok_pad n m : mbytes_ok m = true -> mbytes_ok (pad_to n m) = true.
Proof. intros H. unfold pad_to. rewrite mbytes_ok_app, H, mbytes_ok_none. reflexivity. Qed.

Lemma concat_opt_ok (l : list (option mbytes)) :
  (forall e, In (Some e) l -> mbytes_ok e = true) -> forall m, concat_opt l = Some m -> mbytes_ok m = true.
Proof.
  induction l as [|x r IH]; intros Hall m H.
  - injection H as <-. reflexivity.
  - cbn [concat_opt] in H. destruct x as [e|]; [|discriminate].
    destruct (concat_opt r) as [y|] eqn:Er; [|discriminate]. injection H as <-.
    rewrite mbytes_ok_app, (Hall e (or_introl eq_refl)), (IH (fun e' He' => Hall e' (or_intror He')) y eq_refl).
    reflexivity.
Qed.

(* ---------- the image of a sized value consists of bytes and padding ---------- *)

Lemma enc_ok_mut :
  (forall t i m, enc_sized t i = Some m -> mbytes_ok m = true) /\
  (forall fs is m0 m, mbytes_ok m0 = true -> enc_fields fs is m0 = Some m -> mbytes_ok m = true) /\
  (forall vs k is m0 m, mbytes_ok m0 = true -> enc_variant vs k is m0 = Some m -> mbytes_ok m = true).
Proof.
  apply ty_mutind.
  - (* TUnit *) intros i m H. cbn [enc_sized] in H. injection H as <-. reflexivity.
  - (* TInt *) intros it i m H. cbn [enc_sized] in H.
    destruct i as [n|is0|k0 is0|is0|is0|s0|is0| |]; try discriminate.
    + destruct (n <=? int_max it); [|discriminate]. injection H as <-. apply mbytes_ok_some, to_bytes_ok.
    + injection H as <-. apply mbytes_ok_some, to_bytes_ok.
  - (* TBool *) intros i m H. cbn [enc_sized] in H.
    destruct i as [n|is0|k0 is0|is0|is0|s0|is0| |]; try discriminate.
    + destruct (N.leb_spec n 1) as [Hn|Hn]; [|discriminate]. injection H as <-.
      unfold mbytes_ok. cbn [forallb mbyte_ok]. unfold byte_ok. lia.
    + injection H as <-. reflexivity.
  - (* TCLike *) intros tag n d i m H. cbn [enc_sized] in H.
    destruct i as [k|is0|k0 is0|is0|is0|s0|is0| |]; try discriminate.
    + destruct (k <? n); [|discriminate]. injection H as <-. apply mbytes_ok_some, to_bytes_ok.
    + injection H as <-. apply mbytes_ok_some, to_bytes_ok.
  - (* TArr *) intros t IH n i m H. cbn [enc_sized] in H.
    destruct (field_inits i n) as [is|]; [|discriminate].
    apply (concat_opt_ok _ (fun e He => match proj1 (in_map_iff _ _ _) He with
                                        | ex_intro _ x (conj Hx _) => IH x e Hx end) m H).
  - (* TVec *) intros t _ l i m H. discriminate H.
  - (* TStr *) intros l i m H. discriminate H.
  - (* TFlex *) intros t _ l i m H. discriminate H.
  - (* TStruct *) intros s fs IH i m H. destruct s; [|discriminate H].
    rewrite enc_sized_struct in H. destruct (field_inits i (flen fs)) as [is|]; [|discriminate].
    destruct (enc_fields fs is []) as [m1|] eqn:Ef; [|discriminate]. injection H as <-.
    apply mbytes_ok_pad. apply (IH is [] m1 eq_refl Ef).
  - (* TEnum *) intros s tag d vs IH i m H. destruct s; [|discriminate H].
    rewrite enc_sized_enum in H.
    assert (Hgo : forall k is, enc_enum_go tag d vs k is = Some m -> mbytes_ok m = true).
    { intros k is Hg. unfold enc_enum_go in Hg. destruct (k <? vlen vs); [|discriminate].
      destruct (enc_variant vs (N.to_nat k) is _) as [m1|] eqn:Ev; [|discriminate]. injection Hg as <-.
      apply mbytes_ok_pad. apply (IH _ _ _ _ (mbytes_ok_pad _ _ (mbytes_ok_some _ (to_bytes_ok _ _ _))) Ev). }
    destruct i as [n|is0|k0 is0|is0|is0|s0|is0| |]; try discriminate; eapply Hgo; exact H.
  - (* FNil *) intros is m0 m H0 H. destruct is; [|discriminate H]. injection H as <-. exact H0.
  - (* FCons *) intros t IHt r IHr is m0 m H0 H. destruct is as [|i is']; [discriminate H|].
    rewrite enc_fields_cons in H. destruct (enc_sized t i) as [e|] eqn:Ee; [|discriminate].
    assert (H1 : mbytes_ok (pad_to (ceil_mul (mlen m0) (align t)) m0 ++ e) = true)
      by (rewrite mbytes_ok_app, (mbytes_ok_pad _ _ H0), (IHt _ _ Ee); reflexivity).
    apply (IHr _ _ _ H1 H).
  - (* VNil *) intros k is m0 m _ H. discriminate H.
  - (* VCons *) intros fs IHf r IHr k is m0 m H0 H. cbn [enc_variant] in H. destruct k as [|k'].
    + destruct (field_inits (ISeq is) (flen fs)) as [is'|]; [|discriminate].
      destruct (enc_fields fs is' []) as [e|] eqn:Ef; [|discriminate]. injection H as <-.
      rewrite mbytes_ok_app, H0, (IHf is' [] e eq_refl Ef). reflexivity.
    + apply (IHr _ _ _ _ H0 H).
Qed.

Lemma enc_sized_ok t i m : enc_sized t i = Some m -> mbytes_ok m = true.
Proof. apply (proj1 enc_ok_mut). Qed.

Lemma opt_all_enc_ok et : forall is encs, opt_all (map (enc_sized et) is) = Some encs ->
  Forall (fun e => mbytes_ok e = true) encs.
Proof.
  induction is as [|i r IH]; intros encs H.
  - injection H as <-. constructor.
  - cbn [map opt_all] in H. destruct (enc_sized et i) as [e|] eqn:Ee; [|discriminate].
    destruct (opt_all (map (enc_sized et) r)) as [y|]; [|discriminate]. injection H as <-.
    constructor; [exact (enc_sized_ok et i e Ee)|apply IH; reflexivity].
Qed.

Lemma Forall_firstn' {A} (P : A -> Prop) n l : Forall P l -> Forall P (firstn n l).
Proof.
  intros H. apply Forall_forall. intros x Hx. rewrite Forall_forall in H. apply H.
  rewrite <- (firstn_skipn n l). apply in_or_app. left. exact Hx.
Qed.

(* ---------- the write primitives ---------- *)

Lemma overlay_ok pv m : pv_ok pv -> forall buf, mbytes_ok m = true -> bytes_ok buf = true ->
  bytes_ok (overlay pv m buf) = true.
Proof.
  intros Hpv. induction m as [|x m IH]; intros buf Hm Hb.
  - rewrite overlay_nil. exact Hb.
  - destruct buf as [|y buf]; [rewrite overlay_buf_nil; reflexivity|].
    unfold mbytes_ok in Hm. cbn [forallb] in Hm. apply andb_true_iff in Hm. destruct Hm as [Hx Hm].
    rewrite bytes_ok_cons in Hb. apply andb_true_iff in Hb. destruct Hb as [Hy Hb].
    destruct x as [b|]; cbn [overlay]; rewrite bytes_ok_cons, (IH buf Hm Hb), andb_true_r.
    + exact Hx.
    + destruct pv as [v|]; [unfold byte_ok; cbn [pv_ok] in Hpv; lia|exact Hy].
Qed.

Lemma write_masked_bytes_ok pv m buf : pv_ok pv -> mbytes_ok m = true -> bytes_ok buf = true ->
  bytes_ok (fst (write_masked pv m buf)) = true.
Proof.
  intros Hpv Hm Hb. unfold write_masked. destruct (mlen m <=? blen buf); [|reflexivity].
  apply overlay_ok; assumption.
Qed.

Lemma write_at_bytes_ok pos src dst : bytes_ok src = true -> bytes_ok dst = true ->
  bytes_ok (fst (lift (write_at pos src dst))) = true.
Proof.
  intros Hs Hd. unfold write_at. destruct (pos + blen src <=? blen dst); [|reflexivity].
  cbn [lift ok fst]. rewrite !bytes_ok_app, Hs, (bytes_ok_take _ _ Hd), (bytes_ok_drop _ _ Hd). reflexivity.
Qed.

Lemma write_int_bytes_ok l v buf : bytes_ok buf = true -> bytes_ok (fst (write_int l v buf)) = true.
Proof. intros Hb. unfold write_int. apply write_at_bytes_ok; [apply to_bytes_ok|exact Hb]. Qed.

Lemma emplace_int_bytes_ok l v a slot : bytes_ok slot = true -> bytes_ok (fst (emplace_int l v a slot)) = true.
Proof.
  intros Hb. unfold emplace_int. destruct (negb (aligned a (ialign l))); [exact Hb|].
  destruct (blen slot <? isize l); [exact Hb|]. apply write_int_bytes_ok. exact Hb.
Qed.

Lemma ebind_bytes_ok r f : bytes_ok (fst r) = true ->
  (forall b, bytes_ok b = true -> bytes_ok (fst (f b)) = true) -> bytes_ok (fst (ebind r f)) = true.
Proof. destruct r as [b [[]|k p|c]]; cbn [ebind fst]; auto. Qed.

Lemma on_slice_bytes_ok pos len f buf : bytes_ok buf = true ->
  (forall sub, bytes_ok sub = true -> bytes_ok (fst (f sub)) = true) ->
  bytes_ok (fst (on_slice pos len f buf)) = true.
Proof.
  intros Hb Hf. unfold on_slice. cbn [fst].
  rewrite !bytes_ok_app, (bytes_ok_take _ _ Hb), (bytes_ok_drop _ _ Hb), andb_true_r. cbn [andb].
  apply Hf. apply bytes_ok_take, bytes_ok_drop, Hb.
Qed.

Lemma vec_fill_bytes_ok pv t l encs : pv_ok pv -> Forall (fun e => mbytes_ok e = true) encs ->
  forall len buf, bytes_ok buf = true -> bytes_ok (fst (vec_fill pv t l encs len buf)) = true.
Proof.
  intros Hpv. induction encs as [|e r IH]; intros Hall len buf Hb; [exact Hb|].
  inversion Hall as [|e0 r0 He Hr]; subst e0 r0. cbn [vec_fill].
  apply ebind_bytes_ok.
  - apply on_slice_bytes_ok; [exact Hb|]. intros sub Hs. apply write_masked_bytes_ok; assumption.
  - intros b1 Hb1. apply ebind_bytes_ok; [apply write_int_bytes_ok; exact Hb1|].
    intros b2 Hb2. apply IH; assumption.
Qed.

Lemma vec_items_bytes_ok pv et l buf is chk : pv_ok pv -> bytes_ok buf = true ->
  bytes_ok (fst (vec_items pv et l buf is chk)) = true.
Proof.
  intros Hpv Hb. unfold vec_items. destruct (opt_all (map (enc_sized et) is)) as [encs|] eqn:Ee; [|reflexivity].
  pose proof (opt_all_enc_ok et is encs Ee) as Hall.
  destruct (do slots <- vec_slots et l (blen buf); clamp_cap l slots) as [cap|k p|c]; try reflexivity.
  cbv zeta. destruct (chk && (cap <? N.of_nat (length encs))); [exact Hb|].
  apply ebind_bytes_ok; [apply write_int_bytes_ok; exact Hb|]. intros b0 Hb0.
  apply ebind_bytes_ok; [apply vec_fill_bytes_ok; auto; apply Forall_firstn'; exact Hall|].
  intros b1 Hb1. destruct (cap <? N.of_nat (length encs)); exact Hb1.
Qed.

(* ---------- the FlexVec emplacer loop ---------- *)

Lemma flex_fill_bytes_ok et l item item_size : forall is,
  (forall i pa payload, In i is -> bytes_ok payload = true -> bytes_ok (fst (item i pa payload)) = true) ->
  forall pre prev a data pos, bytes_ok pre = true -> bytes_ok data = true ->
  bytes_ok (fst (flex_fill et l item item_size is pre prev a data pos)) = true.
Proof.
  induction is as [|i r IH]; intros Hitem pre prev a data pos Hpre Hdata.
  - cbn [flex_fill ok fst]. rewrite bytes_ok_app, Hpre, Hdata. reflexivity.
  - rewrite flex_fill_cons. unfold ff_step. cbv zeta.
    set (os := flex_offset_size et l).
    destruct (blen data <? os); [cbn [fail fst]; rewrite bytes_ok_app, Hpre, Hdata; reflexivity|].
    pose proof (bytes_ok_take os data Hdata) as Hslot.
    pose proof (Hitem i (a + os) (drop os data) (or_introl eq_refl) (bytes_ok_drop os data Hdata)) as Hp.
    destruct (item i (a + os) (drop os data)) as [payload' [[]|k p|c]]; cbn [fst] in Hp;
      try (cbn [fst]; rewrite !bytes_ok_app, Hpre, Hslot, Hp; reflexivity).
    destruct (item_size payload') as [sz|k p|c]; try reflexivity.
    destruct (from_usize l (os + ceil_mul sz (align (TFlex et l)))) as [o|];
      [|cbn [fail fst]; rewrite !bytes_ok_app, Hpre, Hslot, Hp; reflexivity].
    destruct (o <? int_max l); [|cbn [fail fst]; rewrite !bytes_ok_app, Hpre, Hslot, Hp; reflexivity].
    pose proof (emplace_int_bytes_ok l (int_max l) a (take os data) Hslot) as Hs'.
    destruct (emplace_int l (int_max l) a (take os data)) as [slot' [[]|k p|c]]; cbn [fst] in Hs';
      try (cbn [fst]; rewrite !bytes_ok_app, Hpre, Hs', Hp; reflexivity).
    destruct (blen payload' <? ceil_mul sz (align (TFlex et l))); [reflexivity|].
    apply IH.
    + intros j pa payload Hj. apply Hitem. right. exact Hj.
    + rewrite !bytes_ok_app, Hs', (bytes_ok_take _ _ Hp), andb_true_r.
      destruct prev as [[pp po]|]; [|exact Hpre].
      rewrite !bytes_ok_app, (bytes_ok_take _ _ Hpre), (bytes_ok_drop _ _ Hpre), to_bytes_ok. reflexivity.
    + apply bytes_ok_drop. exact Hp.
Qed.

(* ---------- every emplacer ---------- *)

Definition BOK (t : ty) : Prop := forall pv i a buf, pv_ok pv -> utf8_init i = true -> bytes_ok buf = true ->
  bytes_ok (fst (emplace_u pv t i a buf)) = true.
Definition BOKF (fs : fields) : Prop := forall pv is a data pos, pv_ok pv -> forallb utf8_init is = true ->
  bytes_ok data = true -> bytes_ok (fst (emplace_fields pv fs is a data pos)) = true.
Definition BOKV (vs : variants) : Prop := forall pv k is a data tag kv tagb, pv_ok pv ->
  forallb utf8_init is = true -> bytes_ok data = true -> bytes_ok tagb = true ->
  bytes_ok (fst (emplace_variant pv vs k is a data tag kv tagb)) = true.

Lemma bok_sized t : sized t = true -> BOK t.
Proof.
  intros Hs pv i a buf Hpv _ Hb. rewrite emplace_u_sized by exact Hs.
  destruct (enc_sized t i) as [m|] eqn:Ee; [|reflexivity].
  apply write_masked_bytes_ok; auto. exact (enc_sized_ok t i m Ee).
Qed.

Lemma forallb_In {A} (f : A -> bool) l x : forallb f l = true -> In x l -> f x = true.
Proof. intros H Hx. rewrite forallb_forall in H. apply H. exact Hx. Qed.

Theorem bok_mut : (forall t, BOK t) /\ (forall fs, BOKF fs) /\ (forall vs, BOKV vs).
Proof.
  apply ty_mutind.
  - apply bok_sized. reflexivity.
  - intros it. apply bok_sized. reflexivity.
  - apply bok_sized. reflexivity.
  - intros tag n d. apply bok_sized. reflexivity.
  - intros t _ n. apply bok_sized. reflexivity.
  - (* TVec *) intros et _ l pv i a buf Hpv Hu Hb.
    destruct i as [v|is0|k0 is0|is0|is0|s0|is0| |]; try reflexivity.
    + rewrite emplace_u_vec_arr. apply vec_items_bytes_ok; assumption.
    + rewrite emplace_u_vec_iter. apply vec_items_bytes_ok; assumption.
    + cbn [emplace_u]. apply write_int_bytes_ok. exact Hb.
    + cbn [emplace_u]. apply write_int_bytes_ok. exact Hb.
  - (* TStr *) intros l pv i a buf Hpv Hu Hb.
    destruct i as [v|is0|k0 is0|is0|is0|s|is0| |]; try reflexivity.
    + cbn [utf8_init] in Hu. destruct (utf8_err s) eqn:Eu; [discriminate|].
      pose proof (utf8_bytes_ok s Eu) as Hs.
      cbn [emplace_u].
      destruct (do slots <- str_slots l (blen buf); clamp_cap l slots) as [cap|k p|c]; try reflexivity.
      destruct (cap <? blen s); [exact Hb|].
      apply ebind_bytes_ok; [apply write_int_bytes_ok; exact Hb|]. intros b0 Hb0.
      apply ebind_bytes_ok; [apply write_at_bytes_ok; assumption|]. intros b1 Hb1.
      apply write_int_bytes_ok. exact Hb1.
    + cbn [emplace_u]. apply write_int_bytes_ok. exact Hb.
    + cbn [emplace_u]. apply write_int_bytes_ok. exact Hb.
  - (* TFlex *) intros et IH l pv i a buf Hpv Hu Hb.
    destruct i as [v|is0|k0 is0|is0|is0|s0|is0| |]; try reflexivity.
    + rewrite emplace_u_flex. cbv zeta. cbn [utf8_init] in Hu.
      set (n := floor_mul (blen buf) (align (TFlex et l))).
      pose proof (emplace_int_bytes_ok l 0 a (take n buf) (bytes_ok_take n buf Hb)) as H0.
      destruct (emplace_int l 0 a (take n buf)) as [data0 [[]|k p|c]]; cbn [fst] in H0 |- *;
        try (rewrite bytes_ok_app, H0, (bytes_ok_drop n buf Hb); reflexivity).
      rewrite bytes_ok_app, (bytes_ok_drop n buf Hb), andb_true_r.
      apply flex_fill_bytes_ok; [|reflexivity|exact H0].
      intros j pa payload Hj Hp. unfold flex_item_emp.
      destruct (check_align_min et pa payload) as [[]|k p|c]; [|exact Hp|reflexivity].
      apply IH; auto. exact (forallb_In _ _ _ Hu Hj).
    + cbn [emplace_u]. apply write_int_bytes_ok. exact Hb.
    + cbn [emplace_u]. apply write_int_bytes_ok. exact Hb.
  - (* TStruct *) intros s fs IH. destruct s; [apply bok_sized; reflexivity|].
    intros pv i a buf Hpv Hu Hb. rewrite emplace_u_struct.
    destruct (field_inits i (flen fs)) as [is|] eqn:Ei; [|reflexivity].
    pose proof (field_inits_utf8 i _ is Ei Hu) as Hus. cbv zeta.
    destruct (negb (aligned a (align_fields fs))); [exact Hb|].
    set (n := floor_mul (blen buf) (align_fields fs)).
    destruct (n <? fold_min_size 0 fs); [exact Hb|]. cbn [fst].
    rewrite bytes_ok_app, (bytes_ok_drop n buf Hb), andb_true_r.
    apply IH; auto. apply bytes_ok_take. exact Hb.
  - (* TEnum *) intros s tag d vs IH. destruct s; [apply bok_sized; reflexivity|].
    intros pv i a buf Hpv Hu Hb. rewrite emplace_u_enum.
    assert (Hgo : forall k is, forallb utf8_init is = true -> bytes_ok (fst (enum_go pv tag vs a buf k is)) = true).
    { intros k is Hus. unfold enum_go. destruct (negb (k <? vlen vs)); [reflexivity|]. cbv zeta.
      destruct (blen buf <? data_offset tag vs); [reflexivity|]. cbn [fst].
      set (rest := drop (data_offset tag vs) buf).
      assert (Hrest : bytes_ok rest = true) by (apply bytes_ok_drop; exact Hb).
      rewrite bytes_ok_app, (bytes_ok_drop _ rest Hrest), andb_true_r.
      apply IH; auto; apply bytes_ok_take; assumption. }
    destruct i as [v|is0|k0 is0|is0|is0|s0|is0| |]; try reflexivity; apply Hgo; [exact Hu|reflexivity].
  - (* FNil *) intros pv is a data pos _ _ Hb. exact Hb.
  - (* FCons *) intros t IHt r IHr pv is a data pos Hpv Hu Hb.
    destruct is as [|i is']; [reflexivity|].
    cbn [forallb] in Hu. apply andb_true_iff in Hu. destruct Hu as [Hui Hur].
    destruct r as [|t' r'].
    + rewrite emplace_fields_single. apply IHt; assumption.
    + rewrite emplace_fields_cons2. cbv zeta.
      set (w := pos_next pos t t' - pos).
      destruct (blen data <? w); [reflexivity|].
      pose proof (IHt pv i a (take w data) Hpv Hui (bytes_ok_take w data Hb)) as Hp.
      destruct (emplace_u pv t i a (take w data)) as [piece' [[]|k p|c]]; cbn [fst] in Hp |- *.
      * rewrite bytes_ok_app, Hp. cbn [andb]. apply IHr; auto. apply bytes_ok_drop. exact Hb.
      * rewrite bytes_ok_app, Hp, (bytes_ok_drop w data Hb). reflexivity.
      * rewrite bytes_ok_app, Hp, (bytes_ok_drop w data Hb). reflexivity.
  - (* VNil *) intros pv k is a data tag kv tagb _ _ _ _. reflexivity.
  - (* VCons *) intros fs IHf r IHr pv k is a data tag kv tagb Hpv Hu Hb Ht.
    destruct k as [|k']; [|cbn [emplace_variant]; apply IHr; assumption].
    rewrite emplace_variant_here.
    destruct (field_inits (ISeq is) (flen fs)) as [is'|] eqn:Ei; [|reflexivity].
    pose proof (field_inits_utf8 (ISeq is) _ is' Ei Hu) as Hus. cbv zeta.
    assert (Hokc : bytes_ok (fst (match write_int tag kv tagb with
                                  | (tagb', Ok _) =>
                                      (tagb' ++ fst (emplace_fields pv fs is' a data 0),
                                       snd (emplace_fields pv fs is' a data 0))
                                  | (_, _) => crashed OobWrite
                                  end)) = true).
    { pose proof (write_int_bytes_ok tag kv tagb Ht) as Hw.
      destruct (write_int tag kv tagb) as [tagb' [[]|k p|c]]; try reflexivity. cbn [fst] in Hw |- *.
      rewrite bytes_ok_app, Hw. cbn [andb]. apply IHf; assumption. }
    assert (Hfail : forall kk p, bytes_ok (fst (fail (tagb ++ data) kk p)) = true).
    { intros kk p. cbn [fail fst]. rewrite bytes_ok_app, Ht, Hb. reflexivity. }
    destruct fs as [|t0 r0]; [exact Hokc|].
    destruct (negb (aligned a (align_fields (FCons t0 r0)))); [apply Hfail|].
    destruct (blen data <? fold_min_size 0 (FCons t0 r0)); [apply Hfail|exact Hokc].
Qed.

(* the emplacer proper *)
Theorem emplace_u_bytes_ok t pv i a buf : pv_ok pv -> utf8_init i = true -> bytes_ok buf = true ->
  bytes_ok (fst (emplace_u pv t i a buf)) = true.
Proof. apply (proj1 bok_mut). Qed.

(* Emplacer::emplace (new_in_place, default_in_place) *)
Theorem emplace_bytes_ok t pv i a buf : pv_ok pv -> utf8_init i = true -> bytes_ok buf = true ->
  bytes_ok (fst (emplace pv t i a buf)) = true.
Proof.
  intros Hpv Hu Hb. unfold emplace. destruct (check_align_min t a buf) as [[]|k p|c]; [|exact Hb|reflexivity].
  apply emplace_u_bytes_ok; assumption.
Qed.

(* assign_in_place *)
Theorem assign_bytes_ok t pv i a bs : pv_ok pv -> utf8_init i = true -> bytes_ok bs = true ->
  bytes_ok (fst (assign_in_place pv t i a bs)) = true.
Proof.
  intros Hpv Hu Hb. unfold assign_in_place. destruct (bytes_len t (blen bs)) as [n|k p|c]; try reflexivity.
  apply on_slice_bytes_ok; [exact Hb|]. intros sub Hs. apply emplace_u_bytes_ok; assumption.
Qed.

(* the premise on string literals is needed: FromStr of a non-byte stores it *)
Example emplace_bytes_ok_needs_utf8 :
  let l8 := {| isize := 1; ialign := 1; ibe := false |} in
  bytes_ok [0; 0; 0] = true /\
  emplace None (TStr l8) (IStr [300]) 0 [0; 0; 0] = ([1; 300; 0], Ok tt) /\
  bytes_ok [1; 300; 0] = false.
Proof. vm_compute. repeat split; reflexivity. Qed.
