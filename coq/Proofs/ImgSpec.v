(* ImgSpec.v — the reference image of a value (the reference side of C03's "its non-padding bytes
   are exactly the documented encoding of that content: native layout for plain types, fixed byte
   order for portable ones").  Written from the documented format with the reference C layout of
   RefLayout.v (c_size, c_align, round_up, c_union_offset, c_vec_data_offset) — not from the
   emplacers and not from the library's own layout arithmetic (PosIter, fold_size, DATA_OFFSET ...).

   [img t i] is the image of the content the emplacer expression [i] specifies for [t], as a list of
   [Some byte] (a byte the encoding determines) and [None] (padding: a byte no content determines):

     scalar / Bool / C-like   the value in the declared byte order
     [T; N]                   the elements one after another (each with its own inner padding)
     FlatVec<T, L>            struct { len: L, data: [T] }: the length, padding up to the C offset of
                              data, the elements, padding up to a multiple of the alignment
     FlatString<L>            the length, the bytes, padding up to a multiple of the alignment
     FlexVec<T, L>            slots of round_up(size of L, align of T) bytes holding an L value; empty: one
                              slot holding 0; otherwise [slot: distance to the next slot][item padded to
                              the alignment] for every item but the last, and [slot: L::MAX][item padded]
                              for the last
     struct                   every field at its C offset, padding between and (sized: up to the C size,
                              unsized: up to a multiple of the alignment) after
     enum                     the variant index as the tag type, padding up to the C offset of the payload
                              union, the fields of the variant at their C offsets, padding after as for a
                              struct (a sized enum: up to its C size, whatever the variant) *)
From Coq Require Import List NArith Bool.
From Flatty.Model Require Import Base Ty RefLayout Emplace.
Open Scope N_scope.

(* pad an image with padding bytes up to length n *)
Definition pad (n : N) (m : mbytes) : mbytes := m ++ repeat None (N.to_nat (n - mlen m)).

Definition known (bs : bytes) : mbytes := map Some bs.

Definition int_img (l : intty) (v : N) : mbytes := known (to_bytes (ibe l) (isize l) v).

Fixpoint img_all (f : init -> option mbytes) (is : list init) : option mbytes :=
  match is with
  | [] => Some []
  | i :: r =>
      match f i, img_all f r with
      | Some x, Some y => Some (x ++ y)
      | _, _ => None
      end
  end.

(* FlexVec chain of a non-empty item list; os = slot size, A = alignment of the vector *)
Fixpoint img_chain (l : intty) (os A : N) (f : init -> option mbytes) (i : init) (r : list init) : option mbytes :=
  match f i with
  | None => None
  | Some x =>
      let item := pad (round_up (mlen x) A) x in
      match r with
      | [] => Some (pad os (int_img l (int_max l)) ++ item)
      | j :: r' =>
          match img_chain l os A f j r' with
          | Some y => Some (pad os (int_img l (os + mlen item)) ++ item ++ y)
          | None => None
          end
      end
  end.

Fixpoint img (t : ty) (i : init) {struct t} : option mbytes :=
  match t with
  | TUnit => Some []
  | TInt it =>
      match i with
      | IInt n => if n <=? int_max it then Some (int_img it n) else None
      | IDefault => Some (int_img it 0)
      | _ => None
      end
  | TBool =>
      match i with
      | IInt n => if n <=? 1 then Some [Some n] else None
      | IDefault => Some [Some 0]
      | _ => None
      end
  | TCLike tag n d =>
      match i with
      | IInt k => if k <? n then Some (int_img tag k) else None
      | IDefault => Some (int_img tag d)
      | _ => None
      end
  | TArr et n =>
      match field_inits i n with
      | Some is => img_all (img et) is
      | None => None
      end
  | TVec et l =>
      let A := N.max (ialign l) (c_align et) in
      let d := c_vec_data_offset et l in
      let mk (is : list init) :=
        match img_all (img et) is with
        | Some body =>
            let m := pad d (int_img l (N.of_nat (length is))) ++ body in
            Some (pad (round_up (mlen m) A) m)
        | None => None
        end in
      match i with
      | IEmpty | IDefault => mk []
      | IVecArr is | IVecIter is => mk is
      | _ => None
      end
  | TStr l =>
      let mk (s : bytes) :=
        let m := int_img l (blen s) ++ known s in
        Some (pad (round_up (mlen m) (ialign l)) m) in
      match i with
      | IEmpty | IDefault => mk []
      | IStr s => mk s
      | _ => None
      end
  | TFlex et l =>
      let A := N.max (ialign l) (c_align et) in
      let os := round_up (isize l) (c_align et) in
      match i with
      | IEmpty | IDefault | IFlex [] => Some (pad os (int_img l 0))
      | IFlex (x :: r) => img_chain l os A (img et) x r
      | _ => None
      end
  | TStruct s fs =>
      match field_inits i (flen fs) with
      | Some is =>
          match img_fields fs is [] with
          | Some m =>
              Some (pad (if s then c_size (TStruct s fs) else round_up (mlen m) (c_align_fields fs)) m)
          | None => None
          end
      | None => None
      end
  | TEnum s tag d vs =>
      let A := N.max (ialign tag) (c_align_variants vs) in
      let mk (k : N) (is : list init) :=
        match img_variant vs (N.to_nat k) is with
        | Some body =>
            let m := pad (c_union_offset tag vs) (int_img tag k) ++ body in
            Some (pad (if s then c_size (TEnum s tag d vs) else round_up (mlen m) A) m)
        | None => None
        end in
      match i with
      | IVar k is => mk k is
      | IDefault => mk d []
      | _ => None
      end
  end
(* [m] = the image so far (the fields before); the next field goes at its C offset *)
with img_fields (fs : fields) (is : list init) (m : mbytes) {struct fs} : option mbytes :=
  match fs, is with
  | FNil, [] => Some m
  | FCons t r, i :: is' =>
      match img t i with
      | Some e => img_fields r is' (pad (round_up (mlen m) (c_align t)) m ++ e)
      | None => None
      end
  | _, _ => None
  end
(* the payload of variant k, laid out from the start of the union *)
with img_variant (vs : variants) (k : nat) (is : list init) {struct vs} : option mbytes :=
  match vs with
  | VNil => None
  | VCons fs r =>
      match k with
      | O => img_fields fs is []
      | S k' => img_variant r k' is
      end
  end.
