(* ExtentFacts.v — size() computes the reference extent of ExtentSpec.v (C05): whenever the model of
   size() returns a number, the reference extent of the same bytes is that number; a valid value has
   both. *)
From Coq Require Import List NArith Bool Lia ZArith ZifyN ZifyBool ZifyNat.
From Flatty.Model Require Import Base Ty Layout Utf8 Validate View Emplace RefLayout.
From Flatty.Proofs Require Import ArithFacts LayoutFacts BytesFacts ValidateFacts FramingFacts ChainFacts ViewFacts
  FormatSpec ExtentSpec EmplaceSpec EmplaceUnsizedFacts FormatFacts.
Open Scope N_scope.

(* ---------- unfolding of the reference extent ---------- *)

Lemma ref_chain_end_S l os A item f data p :
  ref_chain_end l os A item (S f) data p =
  match stored_at l (drop p data) with
  | None => None
  | Some next =>
      if next =? 0 then Some (round_up (p + isize l) A)
      else if next =? int_max l then
        match item (drop (p + os) data) with
        | Some e => Some (round_up (p + os + e) A)
        | None => None
        end
      else ref_chain_end l os A item f data (p + next)
  end.
Proof. reflexivity. Qed.

Lemma ref_fields_end_single t off data :
  ref_fields_end (FCons t FNil) off data =
  match ref_extent t (drop (round_up off (c_align t)) data) with
  | Some e => Some (round_up off (c_align t) + e)
  | None => None
  end.
Proof. reflexivity. Qed.

Lemma ref_fields_end_cons2 t t' r off data :
  ref_fields_end (FCons t (FCons t' r)) off data =
  ref_fields_end (FCons t' r) (round_up off (c_align t) + c_size t) data.
Proof. reflexivity. Qed.

Lemma ref_extent_sized t bs : sized t = true -> ref_extent t bs = Some (c_size t).
Proof.
  destruct t as [| i | | tag n d | t0 n | t0 l | l | t0 l | s fs | s tag d vs]; cbn [sized]; intros H;
    try discriminate; try reflexivity; subst; reflexivity.
Qed.

Lemma ref_extent_flex t l bs : wf (TFlex t l) = true ->
  ref_extent (TFlex t l) bs =
  ref_chain_end l (flex_offset_size t l) (align (TFlex t l)) (ref_extent t)
    (flex_fuel (flex_data t l bs)) (flex_data t l bs) 0.
Proof.
  intros Hw. pose proof (flex_consts t l Hw) as (Hal & _).
  cbn [ref_extent]. cbv zeta. rewrite c_align_vec, (flex_offset_size_c t l Hw).
  change (umax (ialign l) (align t)) with (align (TFlex t l)).
  rewrite round_down_floor by exact Hal. reflexivity.
Qed.

Lemma ref_extent_struct fs bs : wf (TStruct false fs) = true ->
  ref_extent (TStruct false fs) bs =
  match ref_fields_end fs 0 (struct_data false fs bs) with
  | Some e => Some (ceil_mul e (align_fields fs))
  | None => None
  end.
Proof.
  intros Hw. assert (Hal : 0 < align_fields fs).
  { apply P16_pos, align_fields_P16. apply wf_struct_wfF in Hw. exact Hw. }
  cbn [ref_extent]. cbv zeta. unfold struct_data. rewrite <- (proj1 (proj2 align_c_align_mut) fs).
  rewrite round_down_floor by exact Hal.
  destruct (ref_fields_end fs 0 _) as [e|]; [|reflexivity]. rewrite round_up_ceil by exact Hal. reflexivity.
Qed.

Lemma ref_extent_enum tag d vs bs : wf (TEnum false tag d vs) = true ->
  ref_extent (TEnum false tag d vs) bs =
  match stored_at tag bs with
  | Some v =>
      match ref_variant_end vs (N.to_nat v) (enum_data false tag vs bs) with
      | Some None => Some (data_offset tag vs)
      | Some (Some e) => Some (ceil_mul (data_offset tag vs + e) (umax (ialign tag) (align_variants vs)))
      | None => None
      end
  | None => None
  end.
Proof.
  intros Hw. pose proof (enum_consts _ _ _ _ Hw) as (Hal & _ & _).
  cbn [ref_extent]. cbv zeta. unfold enum_data. cbv zeta.
  rewrite <- (data_offset_c _ _ _ _ Hw). rewrite <- (proj2 (proj2 align_c_align_mut) vs).
  rewrite <- umax_spec. rewrite round_down_floor by exact Hal.
  destruct (stored_at tag bs) as [v|]; [|reflexivity].
  destruct (ref_variant_end vs (N.to_nat v) _) as [[e|]|]; [| |reflexivity].
  - rewrite round_up_ceil by exact Hal. reflexivity.
  - rewrite round_up_ceil by exact Hal. reflexivity.
Qed.

(* ---------- the chain: the reference walk ends where the library's walk ends ---------- *)

Lemma chain_ref_end l os A (item : bytes -> option N) a rem pos items e :
  chain l os A (flex_max l) a rem pos items e ->
  forall data fuel, rem = drop pos data -> (length rem < fuel)%nat ->
  ref_chain_end l os A item fuel data pos =
  match e with
  | EndZero p => Some (round_up (p + isize l) A)
  | EndLast p =>
      match item (drop (p + os) data) with
      | Some x => Some (round_up (p + os + x) A)
      | None => None
      end
  end.
Proof.
  induction 1 as [a rem pos Ha Hs Hr|a rem pos Ha Hs Hr Hm0 Hom Hor
                 |a rem pos next items e Ha Hs Hr Hn0 Hnm Hon Hmod Hnr Hc IHc];
    intros data fuel Hrem Hf; (destruct fuel as [|fuel]; [lia|]); rewrite ref_chain_end_S; rewrite <- Hrem.
  - rewrite (read_len_stored_at _ _ _ Hr). reflexivity.
  - rewrite (read_len_stored_at _ _ _ Hr).
    destruct (N.eqb_spec (flex_max l) 0) as [E|_]; [contradiction|].
    assert (Hmax : flex_max l = int_max l).
    { unfold flex_max in *. destruct (to_usize (int_max l)) as [m|k p|c] eqn:Em; try contradiction.
      apply to_usize_inv in Em. exact Em. }
    rewrite Hmax, N.eqb_refl. reflexivity.
  - rewrite (read_len_stored_at _ _ _ Hr).
    destruct (N.eqb_spec next 0) as [E|_]; [contradiction|].
    destruct (N.eqb_spec next (int_max l)) as [E|_].
    + exfalso. apply Hnm. unfold flex_max. unfold read_len in Hr. apply bind_ok_inv in Hr.
      destruct Hr as (raw & _ & Hu). pose proof (to_usize_inv _ _ Hu) as Hraw. subst raw.
      rewrite <- E. rewrite Hu. reflexivity.
    + apply IHc.
      * rewrite Hrem, drop_drop. reflexivity.
      * apply length_drop_lt; auto; lia.
Qed.

(* ---------- the statements ---------- *)

Definition TE (t : ty) : Prop := forall bs k, size_m t bs = Ok k -> ref_extent t bs = Some k.

Definition FE (fs : fields) : Prop := forall data off e,
  size_last fs (drop (ceil_mul off (head_align fs)) data) (ceil_mul off (head_align fs)) = Ok e ->
  ref_fields_end fs off data = Some e.

Definition VE (vs : variants) : Prop := forall s k data e, wf_variants s vs = true ->
  size_variant vs k data = Ok e ->
  (ref_variant_end vs k data = Some None /\ e = 0) \/ ref_variant_end vs k data = Some (Some e).

Lemma sized_TE t : wf t = true -> sized t = true -> TE t.
Proof.
  intros Hw Hs bs k H. rewrite size_m_sized in H by exact Hs. injection H as <-.
  rewrite ref_extent_sized by exact Hs. rewrite ssize_c_size by auto. reflexivity.
Qed.

Lemma vec_TE t l : wf (TVec t l) = true -> TE (TVec t l).
Proof.
  intros Hw bs k H. pose proof (vec_consts t l Hw) as (Hal & _).
  pose proof (wf_vec_inv _ _ Hw) as (Hwt & Hst & _).
  cbn [size_m] in H. apply bind_ok_inv in H. destruct H as (len & Hr & H). injection H as <-.
  cbn [ref_extent]. rewrite (read_len_stored_at _ _ _ Hr).
  rewrite c_align_vec. change (umax (ialign l) (align t)) with (align (TVec t l)).
  rewrite round_up_ceil by exact Hal. rewrite <- (vec_data_offset_c t l Hw), <- (ssize_c_size t Hwt Hst).
  rewrite (N.mul_comm len). reflexivity.
Qed.

Lemma str_TE l : wf (TStr l) = true -> TE (TStr l).
Proof.
  intros Hw bs k H. cbn [wf] in Hw. pose proof (wf_int_ialign_le _ Hw) as (_ & _ & Hal).
  cbn [size_m] in H. apply bind_ok_inv in H. destruct H as (len & Hr & H). injection H as <-.
  cbn [ref_extent]. rewrite (read_len_stored_at _ _ _ Hr). rewrite round_up_ceil by exact Hal. reflexivity.
Qed.

Lemma unwrap_err_ok_inv {A} (r : res A) x : unwrap_err r = Ok x -> r = Ok x.
Proof. destruct r; cbn [unwrap_err]; intros H; congruence. Qed.

Lemma flex_TE t l : TE t -> wf (TFlex t l) = true -> TE (TFlex t l).
Proof.
  intros IH Hw bs k H.
  pose proof (flex_consts t l Hw) as (Hal & Hlos & Hosm & Hdiv & Hos & Hil & _).
  pose proof H as H0. rewrite size_m_flex in H0. apply bind_ok_inv in H0. destruct H0 as ([acc e] & Hfold & _).
  apply unwrap_err_ok_inv in Hfold.
  apply flex_fold_chain in Hfold; [|exact Hos|apply flex_fuel_ok].
  destruct Hfold as (items & Hc & _ & Hn).
  rewrite (flex_size_chain t l 0 bs items e Hw Hc Hn) in H.
  rewrite (ref_extent_flex t l bs Hw).
  rewrite (chain_ref_end _ _ _ (ref_extent t) _ _ _ _ _ Hc (flex_data t l bs) _ eq_refl (flex_fuel_ok _)).
  destruct (chain_mod _ _ _ _ _ _ _ _ _ Hal Hc ltac:(apply N.mod_0_l; lia)) as (_ & Hpm).
  destruct (chain_ge _ _ _ _ _ _ _ _ _ Hc) as (_ & _ & Hend).
  destruct e as [p|p]; cbn [end_pos end_slot flex_size_spec] in *.
  - injection H as <-. rewrite round_up_ceil by exact Hal.
    rewrite ceil_mul_add_mult by auto. f_equal. f_equal.
    apply wf_flex_inv in Hw. destruct Hw as [Hwt Hl].
    pose proof (wf_int_P16 _ Hl) as [Hs Ha]. pose proof (align_P16 _ Hwt) as Hat.
    cbn [align]. unfold flex_offset_size.
    unfold wf_int in Hl. rewrite andb_true_iff, orb_true_iff, !N.eqb_eq in Hl. destruct Hl as [_ Hl].
    clear - Hs Hat Hl. revert Hs Hat Hl.
    generalize (ialign l) (isize l) (align t). intros ia sz at0 Hs Hat Hia.
    unfold P16 in Hs, Hat.
    destruct Hs as [->|[->|[->|[->| ->]]]]; destruct Hat as [->|[->|[->|[->| ->]]]];
      destruct Hia as [->| ->]; reflexivity.
  - destruct (chain_last_item _ _ _ _ _ _ _ _ _ Hc) as (pre & pa & Hitems).
    rewrite N.sub_0_r in Hitems. rewrite Hitems, last_last in H. cbn [snd] in H.
    apply bind_ok_inv in H. destruct H as (sz & Hsz & H). injection H as <-.
    rewrite (IH _ _ Hsz). rewrite round_up_ceil by exact Hal.
    rewrite ceil_mul_add_mult; [reflexivity|exact Hal|]. apply mod_add_mult; auto.
Qed.

Lemma fields_TE_single t : wf t = true -> TE t -> FE (FCons t FNil).
Proof.
  intros Hw IH data off e H. cbn [head_align] in H. rewrite size_last_single in H.
  apply bind_ok_inv in H. destruct H as (s & Hs & H). injection H as <-.
  rewrite ref_fields_end_single. rewrite (c_round_up_align t off Hw). rewrite (IH _ _ Hs). reflexivity.
Qed.

Lemma fields_TE_cons2 t t' r : wf t = true -> wf t' = true -> sized t = true ->
  FE (FCons t' r) -> FE (FCons t (FCons t' r)).
Proof.
  intros Hw Hw' Hst IH data off e H. cbn [head_align] in H. rewrite size_last_cons2 in H.
  apply bind_ok_inv in H. destruct H as (from & Hd & H). apply drop_unchecked_inv in Hd. destruct Hd as [_ ->].
  rewrite ref_fields_end_cons2. rewrite (c_round_up_align t off Hw). rewrite <- (ssize_c_size t Hw Hst).
  apply IH. cbn [head_align]. set (o := ceil_mul off (align t)) in *.
  assert (Hge : o <= pos_next o t t').
  { unfold pos_next. pose proof (ceil_mul_ge (o + ssize t) (align t') (align_pos _ Hw')). lia. }
  rewrite drop_drop in H. replace (o + (pos_next o t t' - o)) with (pos_next o t t') in H by lia.
  exact H.
Qed.

Lemma ceil_mul_0_head fs : fs <> FNil -> wfF fs -> ceil_mul 0 (head_align fs) = 0.
Proof.
  intros Hne Hf. destruct fs as [|t r]; [congruence|]. apply wfF_cons in Hf. destruct Hf as [Hw _].
  cbn [head_align]. pose proof (align_pos _ Hw). apply ceil_mul_id; [lia|]. apply N.mod_0_l. lia.
Qed.

Lemma variants_TE_cons fs r : (fs <> FNil -> wfF fs -> FE fs) -> VE r -> VE (VCons fs r).
Proof.
  intros IHf IHr s k data e Hw H. apply wf_variants_cons in Hw. destruct Hw as [Hf Hr].
  destruct k as [|k'].
  - cbn [size_variant ref_variant_end] in *. destruct fs as [|t0 r0].
    + injection H as <-. left. split; reflexivity.
    + right. destruct Hf as [Hf|Hf]; [discriminate|].
      apply (fold_size_iter_eq (FCons t0 r0) data 0 0 e) in H; [|discriminate|].
      * assert (H0 : ceil_mul 0 (head_align (FCons t0 r0)) = 0) by (apply ceil_mul_0_head; [discriminate|exact Hf]).
        pose proof (IHf ltac:(discriminate) Hf data 0 e) as Hfe. rewrite H0 in Hfe.
        change (drop 0 data) with data in Hfe. rewrite (Hfe H). reflexivity.
      * symmetry. apply ceil_mul_0_head; [discriminate|exact Hf].
  - cbn [size_variant ref_variant_end] in *. eapply IHr; eauto.
Qed.

Lemma struct_TE fs : (fs <> FNil -> wfF fs -> FE fs) -> wf (TStruct false fs) = true -> TE (TStruct false fs).
Proof.
  intros IH Hw bs k H. rewrite (ref_extent_struct fs bs Hw).
  cbn [size_m] in H. apply bind_ok_inv in H. destruct H as (s & Hs & H). injection H as <-.
  destruct (wf_struct_wfF _ _ Hw) as [E|Hf]; [subst fs; discriminate|].
  assert (Hne : fs <> FNil) by (intros E; subst fs; discriminate).
  pose proof (IH Hne Hf (struct_data false fs bs) 0 s) as Hfe.
  assert (H0 : ceil_mul 0 (head_align fs) = 0) by (apply ceil_mul_0_head; auto). rewrite H0 in Hfe.
  change (drop 0 (struct_data false fs bs)) with (struct_data false fs bs) in Hfe.
  unfold struct_data in Hfe at 1. rewrite (Hfe Hs). reflexivity.
Qed.

Lemma enum_TE tag d vs : VE vs -> wf (TEnum false tag d vs) = true -> TE (TEnum false tag d vs).
Proof.
  intros IH Hw bs k H. pose proof (enum_consts _ _ _ _ Hw) as (Hal & _ & Hdm).
  rewrite (ref_extent_enum tag d vs bs Hw).
  pose proof H as H0. cbn [size_m] in H0. apply bind_ok_inv in H0. destruct H0 as (v & Hr & H0).
  apply bind_ok_inv in H0. destruct H0 as (data0 & Hd & _). apply drop_unchecked_inv in Hd. destruct Hd as [Hd _].
  destruct (size_enum_inv tag d vs bs v k Hr Hd H) as (e & He & ->).
  rewrite (read_int_stored_at _ _ _ Hr).
  apply wf_enum_inv in Hw. destruct Hw as (_ & _ & _ & _ & _ & Hv).
  destruct (IH false _ _ _ Hv He) as [[-> ->]| ->]; [|reflexivity].
  rewrite N.add_0_r. rewrite ceil_mul_id by auto. reflexivity.
Qed.

Theorem size_ref_extent_mut :
  (forall t, wf t = true -> TE t) /\
  (forall fs, fs <> FNil -> wfF fs -> FE fs) /\
  (forall vs, VE vs).
Proof.
  apply ty_mutind.
  - (* TUnit *) intros Hw. apply sized_TE; auto.
  - (* TInt *) intros i Hw. apply sized_TE; auto.
  - (* TBool *) intros Hw. apply sized_TE; auto.
  - (* TCLike *) intros tag n d Hw. apply sized_TE; auto.
  - (* TArr *) intros t IH n Hw. apply sized_TE; auto.
  - (* TVec *) intros t IH l Hw. apply vec_TE; auto.
  - (* TStr *) intros l Hw. apply str_TE; auto.
  - (* TFlex *) intros t IH l Hw. apply flex_TE; auto. apply IH. apply wf_flex_inv in Hw. tauto.
  - (* TStruct *) intros s fs IH Hw. destruct s; [apply sized_TE; auto|]. apply struct_TE; auto.
  - (* TEnum *) intros s tag d vs IH Hw. destruct s; [apply sized_TE; auto|]. apply enum_TE; auto.
  - (* FNil *) intros H. congruence.
  - (* FCons *) intros t IHt r IHr _ Hw. apply wfF_cons in Hw. destruct Hw as [Hwt Hr].
    destruct r as [|t' r'].
    + apply fields_TE_single; auto.
    + destruct Hr as [Hr|[Hst Hr]]; [discriminate|].
      pose proof (wfF_cons _ _ Hr) as [Hwt' _].
      apply fields_TE_cons2; auto. apply IHr; [congruence|auto].
  - (* VNil *) intros s k data e _ H. cbn [size_variant] in H. discriminate.
  - (* VCons *) intros fs IHf r IHr. apply variants_TE_cons; auto.
Qed.

(* whenever size() returns, it returns the reference extent *)
Theorem size_ref_extent t bs k : wf t = true -> size_m t bs = Ok k -> ref_extent t bs = Some k.
Proof. intros Hw. apply (proj1 size_ref_extent_mut t Hw). Qed.

(* size() of a valid value is the reference extent of its encoding *)
Theorem valid_size_ref_extent t a bs : wf t = true -> validate t a bs = Ok tt ->
  exists e, ref_extent t bs = Some e /\ size_m t bs = Ok e.
Proof.
  intros Hw Hv. destruct (valid_size_view t a bs Hw Hv) as (k & v & Hk & _).
  exists k. split; [apply size_ref_extent; auto|exact Hk].
Qed.

Theorem valid_ref_extent_within t a bs : wf t = true -> validate t a bs = Ok tt ->
  exists e, ref_extent t bs = Some e /\ e <= blen bs /\ e mod align t = 0 /\ min_size t <= e.
Proof.
  intros Hw Hv. destruct (valid_size_view t a bs Hw Hv) as (k & v & Hk & Hle & Hmod & Hmin & _).
  exists k. split; [apply size_ref_extent; auto|auto].
Qed.

Theorem emplaced_ref_extent t i : wf t = true -> narrow_ty t = true ->
  init_ok t i = true -> utf8_init i = true ->
  forall pv a buf buf', new_in_place pv t i a buf = (buf', Ok tt) -> ref_extent t buf' = Some (extent t i).
Proof.
  intros Hw Hn Hi Hu pv a buf buf' He.
  destruct (emplace_reads_back t i Hw Hn Hi Hu pv a buf buf' He) as (_ & _ & _ & Hsz).
  apply size_ref_extent; auto.
Qed.
