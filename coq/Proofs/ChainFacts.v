(* ChainFacts.v — the FlexVec chain walk as a list of items, independent of the item callback. *)
From Coq Require Import List NArith Bool Lia ZArith ZifyN ZifyBool ZifyNat.
From Flatty.Model Require Import Base Ty Layout Validate.
From Flatty.Proofs Require Import ArithFacts LayoutFacts BytesFacts ValidateFacts.
Open Scope N_scope.

(* ---------- inversion of binds ---------- *)

Lemma bind_ok_inv {A B} (r : res A) (f : A -> res B) b :
  bind r f = Ok b -> exists x, r = Ok x /\ f x = Ok b.
Proof. destruct r as [x|k p|c]; cbn [bind]; intros H; [eauto|discriminate|discriminate]. Qed.

Lemma shift_ok_inv {A} off (r : res A) x : shift off r = Ok x -> r = Ok x.
Proof. destruct r; cbn [shift]; intros H; congruence. Qed.

Lemma to_usize_inv v n : to_usize v = Ok n -> n = v.
Proof. unfold to_usize. destruct (v <? two64); intros H; congruence. Qed.

(* ---------- slices that agree on their first n bytes ---------- *)

Definition agree (n : N) (bs bs' : bytes) : Prop :=
  n <= blen bs /\ n <= blen bs' /\ take n bs' = take n bs.

Lemma agree_refl n bs : n <= blen bs -> agree n bs bs.
Proof. intros H. repeat split; auto. Qed.

Lemma agree_sym n bs bs' : agree n bs bs' -> agree n bs' bs.
Proof. intros (H1 & H2 & H3). repeat split; auto. Qed.

Lemma agree_le n m bs bs' : agree n bs bs' -> m <= n -> agree m bs bs'.
Proof.
  intros (H1 & H2 & H3) Hm. repeat split; try lia.
  rewrite <- (take_take m n bs') by exact Hm. rewrite H3. apply take_take. exact Hm.
Qed.

Lemma agree_take n m bs bs' : agree n bs bs' -> m <= n -> take m bs' = take m bs.
Proof. intros H Hm. apply (agree_le n m bs bs' H Hm). Qed.

Lemma agree_drop n m bs bs' : agree n bs bs' -> m <= n -> agree (n - m) (drop m bs) (drop m bs').
Proof.
  intros (H1 & H2 & H3) Hm. repeat split.
  - rewrite blen_drop. lia.
  - rewrite blen_drop. lia.
  - rewrite !take_drop_comm. replace (m + (n - m)) with n by lia. rewrite H3. reflexivity.
Qed.

Lemma agree_take_drop n m s bs bs' : agree n bs bs' -> m + s <= n -> take s (drop m bs') = take s (drop m bs).
Proof.
  intros H Hm. rewrite !take_drop_comm. rewrite (agree_take n (m + s) bs bs' H Hm). reflexivity.
Qed.

Lemma agree_take_l n m bs bs' : agree n bs bs' -> n <= m -> agree n (take m bs) bs'.
Proof.
  intros (H1 & H2 & H3) Hm. repeat split; auto.
  - rewrite blen_take. lia.
  - rewrite take_take by exact Hm. exact H3.
Qed.

Lemma agree_take_r n m bs bs' : agree n bs bs' -> n <= m -> agree n bs (take m bs').
Proof.
  intros (H1 & H2 & H3) Hm. repeat split; auto.
  - rewrite blen_take. lia.
  - rewrite take_take by exact Hm. exact H3.
Qed.

Lemma agree_of_take n bs bs' : n <= blen bs' -> take n bs' = take n bs -> agree n bs bs'.
Proof.
  intros H1 H2. repeat split; auto.
  assert (H : blen (take n bs') = blen (take n bs)) by (rewrite H2; reflexivity).
  rewrite !blen_take in H. lia.
Qed.

Lemma agree_read_int l n bs bs' : agree n bs bs' -> isize l <= n -> read_int l bs' = read_int l bs.
Proof.
  intros Ha Hl. pose proof Ha as (H1 & H2 & _). unfold read_int.
  destruct (N.leb_spec (isize l) (blen bs)); [|lia]. destruct (N.leb_spec (isize l) (blen bs')); [|lia].
  rewrite (agree_take n _ bs bs' Ha Hl). reflexivity.
Qed.

Lemma agree_read_len l n bs bs' : agree n bs bs' -> isize l <= n -> read_len l bs' = read_len l bs.
Proof. intros Ha Hl. unfold read_len. rewrite (agree_read_int l n bs bs' Ha Hl). reflexivity. Qed.

Lemma length_drop_lt n (rem : bytes) (fuel : nat) :
  0 < n -> n <= blen rem -> (length rem < S fuel)%nat -> (length (drop n rem) < fuel)%nat.
Proof. intros Hn Hle Hf. unfold drop. rewrite skipn_length. unfold blen in *. lia. Qed.

(* ---------- the plain fold of an item callback over a list of items ---------- *)

Definition flex_item : Type := (N * N * bytes)%type.

Fixpoint fold_items {A} (item : A -> N -> N -> bytes -> res A) (acc : A) (items : list flex_item) : res A :=
  match items with
  | [] => Ok acc
  | (p, pa, pl) :: r => do acc' <- item acc p pa pl; fold_items item acc' r
  end.

Lemma fold_items_app {A} (item : A -> N -> N -> bytes -> res A) xs ys : forall acc,
  fold_items item acc (xs ++ ys) = (do acc' <- fold_items item acc xs; fold_items item acc' ys).
Proof.
  induction xs as [|[[p pa] pl] r IH]; intros acc; [reflexivity|].
  cbn [app fold_items]. destruct (item acc p pa pl) as [x|k q|c]; cbn [bind]; auto.
Qed.

Lemma fold_items_single {A} (item : A -> N -> N -> bytes -> res A) acc p pa pl :
  fold_items item acc [(p, pa, pl)] = item acc p pa pl.
Proof. cbn [fold_items]. destruct (item acc p pa pl); reflexivity. Qed.

(* ---------- the chain ---------- *)

Section Chain.
  (* l = offset type, os = OFFSET_SIZE, al = ALIGN of the FlexVec, m = L::MAX as usize *)
  Variables (l : intty) (os al m : N).

  Inductive chain : N -> bytes -> N -> list flex_item -> flex_end -> Prop :=
  | ch_zero a rem pos :
      aligned a (ialign l) = true -> isize l <= blen rem -> read_len l rem = Ok 0 ->
      chain a rem pos [] (EndZero pos)
  | ch_last a rem pos :
      aligned a (ialign l) = true -> isize l <= blen rem -> read_len l rem = Ok m ->
      m <> 0 -> os <= m -> os <= blen rem ->
      chain a rem pos [(pos, a + os, drop os rem)] (EndLast pos)
  | ch_next a rem pos next items e :
      aligned a (ialign l) = true -> isize l <= blen rem -> read_len l rem = Ok next ->
      next <> 0 -> next <> m -> os <= next -> next mod al = 0 -> next <= blen rem ->
      chain (a + next) (drop next rem) (pos + next) items e ->
      chain a rem pos ((pos, a + os, drop os (take next rem)) :: items) e.

  (* the head of the walk: alignment of the slot, room for the slot, the stored offset *)
  Lemma flex_fold_head {A} (item : A -> N -> N -> bytes -> res A) fuel acc a rem pos r :
    flex_fold l os al item (S fuel) acc a rem pos = Ok r ->
    aligned a (ialign l) = true /\ isize l <= blen rem /\ exists next, read_len l rem = Ok next.
  Proof.
    cbn [flex_fold]. destruct (aligned a (ialign l)); cbn [negb]; [|discriminate].
    destruct (N.ltb_spec (blen rem) (isize l)) as [Hs|Hs]; [discriminate|].
    intros H. split; [reflexivity|]. split; [exact Hs|]. unfold read_len.
    destruct (read_int l rem) as [raw|k p|c]; cbn [bind] in *; try discriminate.
    destruct (to_usize raw) as [next|k p|c]; cbn [bind] in *; try discriminate. eauto.
  Qed.

  Lemma flex_fold_step {A} (item : A -> N -> N -> bytes -> res A) fuel acc a rem pos next :
    aligned a (ialign l) = true -> isize l <= blen rem -> read_len l rem = Ok next ->
    flex_fold l os al item (S fuel) acc a rem pos =
    (if next =? 0 then Ok (acc, EndZero pos)
     else
       do m <- to_usize (int_max l);
       let last := next =? m in
       if next <? os then Err InsufficientSize (pos + os)
       else if negb last && negb (next mod al =? 0) then Err BadAlign pos
       else if (negb last && (blen rem <? next)) || (blen rem <? os) then Err InsufficientSize pos
       else if last then
         do sp <- split_at os rem;
         do acc' <- item acc pos (a + os) (snd sp);
         Ok (acc', EndLast pos)
       else
         do sp <- split_at next rem;
         do sp2 <- split_at os (fst sp);
         do acc' <- item acc pos (a + os) (snd sp2);
         flex_fold l os al item fuel acc' (a + next) (snd sp) (pos + next)).
  Proof.
    intros Ha Hs Hr. cbn [flex_fold]. rewrite Ha. cbn [negb].
    destruct (N.ltb_spec (blen rem) (isize l)); [lia|].
    unfold read_len in Hr.
    destruct (read_int l rem) as [raw|k p|c]; cbn [bind] in *; try discriminate.
    rewrite Hr. cbn [bind]. reflexivity.
  Qed.

  (* a chain is walked successfully by any callback that succeeds on its items *)
  Lemma chain_fold_ok {A} (item : A -> N -> N -> bytes -> res A) :
    to_usize (int_max l) = Ok m -> 0 < os ->
    forall a rem pos items e, chain a rem pos items e ->
    forall fuel acc acc', (length rem < fuel)%nat -> fold_items item acc items = Ok acc' ->
      flex_fold l os al item fuel acc a rem pos = Ok (acc', e).
  Proof.
    intros Hm Hos.
    induction 1 as [a rem pos Ha Hs Hr|a rem pos Ha Hs Hr Hm0 Hom Hor
                   |a rem pos next items e Ha Hs Hr Hn0 Hnm Hon Hmod Hnr Hc IHc];
      intros fuel acc acc' Hf Hfold; (destruct fuel as [|fuel]; [lia|]).
    - rewrite (flex_fold_step _ _ _ _ _ _ _ Ha Hs Hr). cbn [fold_items] in Hfold.
      injection Hfold as <-. reflexivity.
    - rewrite (flex_fold_step _ _ _ _ _ _ _ Ha Hs Hr).
      destruct (N.eqb_spec m 0); [lia|]. rewrite Hm. cbn [bind]. cbv zeta.
      destruct (N.ltb_spec m os); [lia|]. rewrite N.eqb_refl. cbn [negb andb orb].
      destruct (N.ltb_spec (blen rem) os); [lia|].
      unfold split_at. destruct (N.leb_spec os (blen rem)); [|lia]. cbn [bind snd].
      rewrite fold_items_single in Hfold. rewrite Hfold. reflexivity.
    - rewrite (flex_fold_step _ _ _ _ _ _ _ Ha Hs Hr).
      destruct (N.eqb_spec next 0); [lia|]. rewrite Hm. cbn [bind]. cbv zeta.
      destruct (N.ltb_spec next os); [lia|].
      destruct (N.eqb_spec next m); [lia|]. cbn [negb andb orb].
      destruct (N.eqb_spec (next mod al) 0); [|lia]. cbn [negb].
      destruct (N.ltb_spec (blen rem) next); [lia|]. cbn [orb].
      destruct (N.ltb_spec (blen rem) os); [lia|].
      unfold split_at. destruct (N.leb_spec next (blen rem)); [|lia]. cbn [bind fst snd].
      rewrite blen_take_le by lia. destruct (N.leb_spec os next); [|lia]. cbn [bind snd].
      cbn [fold_items] in Hfold. apply bind_ok_inv in Hfold. destruct Hfold as (acc1 & Hi & Hfold).
      rewrite Hi. cbn [bind]. apply IHc; auto. apply length_drop_lt; auto; lia.
  Qed.

  (* a walk that ends Ok walks a chain, whatever the callback, and conversely *)
  Theorem flex_fold_ok_iff {A} (item : A -> N -> N -> bytes -> res A) :
    to_usize (int_max l) = Ok m -> 0 < os ->
    forall fuel acc a rem pos, (length rem < fuel)%nat ->
    forall acc' e,
      flex_fold l os al item fuel acc a rem pos = Ok (acc', e) <->
      exists items, chain a rem pos items e /\ fold_items item acc items = Ok acc'.
  Proof.
    intros Hm Hos. induction fuel as [|fuel IH]; intros acc a rem pos Hf acc' e; [lia|].
    split.
    - intros H. destruct (flex_fold_head _ _ _ _ _ _ _ H) as (Ha & Hs & next & Hr).
      rewrite (flex_fold_step _ _ _ _ _ _ _ Ha Hs Hr) in H.
      destruct (N.eqb_spec next 0) as [Hz|Hz].
      { injection H as <- <-. subst next. exists []. split; [apply ch_zero; auto|reflexivity]. }
      rewrite Hm in H. cbn [bind] in H. cbv zeta in H.
      destruct (N.ltb_spec next os) as [H1|H1]; [discriminate|].
      destruct (N.eqb_spec next m) as [Hl|Hl]; cbn [negb andb orb] in H.
      + destruct (N.ltb_spec (blen rem) os) as [H2|H2]; [discriminate|].
        unfold split_at in H. destruct (N.leb_spec os (blen rem)); [|lia]. cbn [bind snd] in H.
        apply bind_ok_inv in H. destruct H as (acc1 & Hi & H). injection H as <- <-.
        subst next. exists [(pos, a + os, drop os rem)]. split; [apply ch_last; auto|].
        rewrite fold_items_single. exact Hi.
      + destruct (N.eqb_spec (next mod al) 0) as [Hmod|Hmod]; cbn [negb] in H; [|discriminate].
        destruct (N.ltb_spec (blen rem) next) as [H2|H2]; cbn [orb] in H; [discriminate|].
        destruct (N.ltb_spec (blen rem) os) as [H3|H3]; [discriminate|].
        unfold split_at in H. destruct (N.leb_spec next (blen rem)); [|lia]. cbn [bind fst snd] in H.
        rewrite blen_take_le in H by lia. destruct (N.leb_spec os next); [|lia]. cbn [bind snd] in H.
        apply bind_ok_inv in H. destruct H as (acc1 & Hi & H).
        apply IH in H; [|apply length_drop_lt; auto; lia].
        destruct H as (items & Hc & Hfold).
        exists ((pos, a + os, drop os (take next rem)) :: items). split.
        * apply ch_next; auto.
        * cbn [fold_items]. rewrite Hi. cbn [bind]. exact Hfold.
    - intros (items & Hc & Hfold). eapply chain_fold_ok; eauto.
  Qed.

  (* when L::MAX does not fit usize (a 16-byte offset type) the only Ok walk is the empty one *)
  Lemma flex_fold_nomax {A} (item : A -> N -> N -> bytes -> res A) c fuel acc a rem pos acc' e :
    to_usize (int_max l) = Crash c ->
    flex_fold l os al item fuel acc a rem pos = Ok (acc', e) ->
    acc' = acc /\ chain a rem pos [] e.
  Proof.
    intros Hm H. destruct fuel as [|fuel]; [discriminate|].
    destruct (flex_fold_head _ _ _ _ _ _ _ H) as (Ha & Hs & next & Hr).
    rewrite (flex_fold_step _ _ _ _ _ _ _ Ha Hs Hr) in H.
    destruct (N.eqb_spec next 0) as [Hz|Hz].
    - injection H as <- <-. subst next. split; [reflexivity|]. apply ch_zero; auto.
    - rewrite Hm in H. discriminate.
  Qed.

  Lemma chain_nil_fold {A} (item : A -> N -> N -> bytes -> res A) a rem pos e fuel acc :
    chain a rem pos [] e -> flex_fold l os al item (S fuel) acc a rem pos = Ok (acc, e).
  Proof.
    intros Hc. inversion Hc as [a0 rem0 pos0 Ha Hs Hr| |]; subst.
    rewrite (flex_fold_step _ _ _ _ _ _ _ Ha Hs Hr). reflexivity.
  Qed.

  (* ---------- positions ---------- *)

  Definition item_pos (x : flex_item) : N := fst (fst x).
  Definition end_pos (e : flex_end) : N := match e with EndZero p => p | EndLast p => p end.
  (* the bytes of the slot the chain ends in *)
  Definition end_slot (e : flex_end) : N := match e with EndZero _ => isize l | EndLast _ => os end.

  Lemma chain_ge a rem pos items e : chain a rem pos items e ->
    Forall (fun x => pos <= item_pos x) items /\ pos <= end_pos e /\
    end_pos e + end_slot e <= pos + blen rem.
  Proof.
    induction 1 as [a rem pos Ha Hs Hr|a rem pos Ha Hs Hr Hm0 Hom Hor
                   |a rem pos next items e Ha Hs Hr Hn0 Hnm Hon Hmod Hnr Hc IHc].
    - cbn [end_pos end_slot]. repeat split; [constructor|lia|lia].
    - cbn [end_pos end_slot]. repeat split; [|lia|lia]. constructor; [cbn; lia|constructor].
    - destruct IHc as (IH1 & IH2 & IH3). rewrite blen_drop in IH3. repeat split; [|lia|lia].
      constructor; [cbn; lia|]. eapply Forall_impl; [|exact IH1]. cbn beta. intros x Hx. lia.
  Qed.

  Lemma chain_mod a rem pos items e : 0 < al -> chain a rem pos items e -> pos mod al = 0 ->
    Forall (fun x => item_pos x mod al = 0) items /\ end_pos e mod al = 0.
  Proof.
    intros Hal. induction 1 as [a rem pos Ha Hs Hr|a rem pos Ha Hs Hr Hm0 Hom Hor
                   |a rem pos next items e Ha Hs Hr Hn0 Hnm Hon Hmod Hnr Hc IHc]; intros Hp.
    - cbn [end_pos]. split; [constructor|exact Hp].
    - cbn [end_pos]. split; [|exact Hp]. constructor; [exact Hp|constructor].
    - destruct IHc as (IH1 & IH2); [apply mod_add_mult; auto|]. split; [|exact IH2].
      constructor; [exact Hp|exact IH1].
  Qed.

  (* an empty chain ends in a zero slot where it started *)
  Lemma chain_nil_end a rem pos e : chain a rem pos [] e -> e = EndZero pos.
  Proof. intros Hc. inversion Hc; subst. reflexivity. Qed.

  (* a chain that ends in a zero slot away from its start has an item *)
  Lemma chain_zero_items a rem pos items p : chain a rem pos items (EndZero p) -> items = [] \/ (items <> [] /\ pos < p).
  Proof.
    intros Hc. inversion Hc as [|?|a0 rem0 pos0 next items0 e0 Ha Hs Hr Hn0 Hnm Hon Hmod Hnr Hc']; subst.
    - left. reflexivity.
    - right. split; [discriminate|]. destruct (chain_ge _ _ _ _ _ Hc') as (_ & H & _). cbn [end_pos] in H. lia.
  Qed.

  (* no item iff the chain ends in a zero slot at its start position *)
  Lemma chain_nil_iff a rem pos items e : chain a rem pos items e -> (items = [] <-> e = EndZero pos).
  Proof.
    intros Hc. split.
    - intros ->. eapply chain_nil_end; eauto.
    - intros ->. destruct (chain_zero_items _ _ _ _ _ Hc) as [H|[_ H]]; [exact H|lia].
  Qed.

  (* a chain that ends in a marked item: that item is the last one, its payload is the rest of the data *)
  Lemma chain_last_item a rem pos items p : chain a rem pos items (EndLast p) ->
    exists pre pa, items = pre ++ [(p, pa, drop (p - pos + os) rem)].
  Proof.
    intros Hc. remember (EndLast p) as e eqn:He. revert p He.
    induction Hc as [a rem pos Ha Hs Hr|a rem pos Ha Hs Hr Hm0 Hom Hor
                   |a rem pos next items e Ha Hs Hr Hn0 Hnm Hon Hmod Hnr Hc IHc]; intros p He.
    - discriminate.
    - injection He as <-. exists [], (a + os). rewrite N.sub_diag, N.add_0_l. reflexivity.
    - subst e. destruct (IHc p eq_refl) as (pre & pa & ->).
      destruct (chain_ge _ _ _ _ _ Hc) as (_ & Hge & _). cbn [end_pos] in Hge.
      exists ((pos, a + os, drop os (take next rem)) :: pre), pa. cbn [app].
      rewrite drop_drop. replace (next + (p - (pos + next) + os)) with (p - pos + os) by lia. reflexivity.
  Qed.

  (* ---------- the chain read from another address ---------- *)

  (* the slots sit at multiples of al, hence of the offset type's alignment: the walk from any other
     aligned address visits the same slots and the same payloads *)
  Definition same_item (x y : flex_item) : Prop := item_pos x = item_pos y /\ snd x = snd y.

  Lemma chain_readdr :
    0 < al -> 0 < ialign l -> al mod ialign l = 0 ->
    forall a rem pos items e, chain a rem pos items e ->
    forall a', a' mod ialign l = 0 ->
    exists items', chain a' rem pos items' e /\ Forall2 same_item items items'.
  Proof.
    intros Hal Hil Hdiv.
    induction 1 as [a rem pos Ha Hs Hr|a rem pos Ha Hs Hr Hm0 Hom Hor
                   |a rem pos next items e Ha Hs Hr Hn0 Hnm Hon Hmod Hnr Hc IHc]; intros a' Ha'.
    - exists []. split; [|constructor]. apply ch_zero; auto. unfold aligned. rewrite Ha'. reflexivity.
    - exists [(pos, a' + os, drop os rem)]. split.
      + apply ch_last; auto. unfold aligned. rewrite Ha'. reflexivity.
      + constructor; [split; reflexivity|constructor].
    - destruct (IHc (a' + next)) as (items' & Hc' & Hf').
      { apply mod_add_mult; auto. apply mod_trans with (m := al); auto. }
      exists ((pos, a' + os, drop os (take next rem)) :: items'). split.
      + apply ch_next; auto. unfold aligned. rewrite Ha'. reflexivity.
      + constructor; [split; reflexivity|exact Hf'].
  Qed.

  Lemma fold_items_same {A} (item : A -> N -> N -> bytes -> res A) :
    (forall acc p pa pa' pl, item acc p pa pl = item acc p pa' pl) ->
    forall items items', Forall2 same_item items items' ->
    forall acc, fold_items item acc items' = fold_items item acc items.
  Proof.
    intros Hitem. induction 1 as [|[[p pa] pl] [[p' pa'] pl'] r r' Hxy Hr IH]; intros acc; [reflexivity|].
    destruct Hxy as [Hp Hpl]. cbn in Hp, Hpl. subst p' pl'. cbn [fold_items].
    rewrite (Hitem acc p pa' pa pl). destruct (item acc p pa pl); cbn [bind]; auto.
  Qed.

  (* ---------- the chain in a slice that agrees on the bytes the chain covers ---------- *)

  Lemma chain_local a rem pos items e : isize l <= os -> chain a rem pos items e ->
    forall rem' n, agree n rem rem' -> end_pos e + end_slot e <= pos + n ->
    match e with
    | EndZero _ => chain a rem' pos items e
    | EndLast p => exists pre pa,
        items = pre ++ [(p, pa, drop (p - pos + os) rem)] /\
        chain a rem' pos (pre ++ [(p, pa, drop (p - pos + os) rem')]) e
    end.
  Proof.
    intros Hlos.
    induction 1 as [a rem pos Ha Hs Hr|a rem pos Ha Hs Hr Hm0 Hom Hor
                   |a rem pos next items e Ha Hs Hr Hn0 Hnm Hon Hmod Hnr Hc IHc]; intros rem' n Hag Hend.
    - cbn [end_pos end_slot] in Hend. pose proof Hag as (_ & Hn' & _).
      apply ch_zero; auto; [lia|]. rewrite (agree_read_len l n rem rem' Hag) by lia. exact Hr.
    - cbn [end_pos end_slot] in Hend. pose proof Hag as (_ & Hn' & _).
      exists [], (a + os). rewrite N.sub_diag, N.add_0_l. split; [reflexivity|]. cbn [app].
      apply ch_last; auto; [lia| |lia]. rewrite (agree_read_len l n rem rem' Hag) by lia. exact Hr.
    - destruct (chain_ge _ _ _ _ _ Hc) as (_ & Hge & _).
      assert (Hnn : next <= n) by (destruct e; cbn [end_pos end_slot] in *; lia).
      pose proof Hag as (_ & Hn' & _).
      assert (Hr' : read_len l rem' = Ok next) by (rewrite (agree_read_len l n rem rem' Hag) by lia; exact Hr).
      specialize (IHc (drop next rem') (n - next) (agree_drop _ _ _ _ Hag Hnn) ltac:(lia)).
      assert (Htk : take next rem' = take next rem) by (apply (agree_take n next rem rem' Hag Hnn)).
      destruct e as [p|p].
      + rewrite <- Htk. apply ch_next; auto; lia.
      + destruct IHc as (pre & pa & -> & Hc').
        cbn [end_pos] in Hge.
        exists ((pos, a + os, drop os (take next rem)) :: pre), pa. split.
        * cbn [app]. rewrite drop_drop.
          replace (next + (p - (pos + next) + os)) with (p - pos + os) by lia. reflexivity.
        * cbn [app]. rewrite <- Htk. apply ch_next; auto; [lia|lia|].
          rewrite drop_drop in Hc'. replace (next + (p - (pos + next) + os)) with (p - pos + os) in Hc' by lia.
          exact Hc'.
  Qed.
End Chain.

(* ---------- one packaging for every use: a successful walk with one callback determines the
   walk with any other callback ---------- *)

Definition flex_max (l : intty) : N := match to_usize (int_max l) with Ok m => m | _ => 0 end.

Lemma flex_fold_chain {A} l os al (item : A -> N -> N -> bytes -> res A) fuel acc a rem pos acc' e :
  0 < os -> (length rem < fuel)%nat ->
  flex_fold l os al item fuel acc a rem pos = Ok (acc', e) ->
  exists items, chain l os al (flex_max l) a rem pos items e /\ fold_items item acc items = Ok acc' /\
    ((exists c, to_usize (int_max l) = Crash c) -> items = []).
Proof.
  intros Hos Hf H. unfold flex_max. destruct (to_usize (int_max l)) as [m|k p|c] eqn:Hm.
  - apply (flex_fold_ok_iff l os al m item Hm Hos fuel acc a rem pos Hf) in H.
    destruct H as (items & Hc & Hfold). exists items. repeat split; auto. intros [c Hc']. discriminate.
  - unfold to_usize in Hm. destruct (int_max l <? two64); discriminate.
  - destruct (flex_fold_nomax l os al 0 item c _ _ _ _ _ _ _ Hm H) as [-> Hc].
    exists []. repeat split; auto.
Qed.

Lemma chain_flex_fold {A} l os al (item : A -> N -> N -> bytes -> res A) fuel acc a rem pos acc' e items :
  0 < os -> (length rem < fuel)%nat ->
  chain l os al (flex_max l) a rem pos items e ->
  ((exists c, to_usize (int_max l) = Crash c) -> items = []) ->
  fold_items item acc items = Ok acc' ->
  flex_fold l os al item fuel acc a rem pos = Ok (acc', e).
Proof.
  intros Hos Hf Hc Hnil Hfold. unfold flex_max in Hc. destruct (to_usize (int_max l)) as [m|k p|c] eqn:Hm.
  - apply (flex_fold_ok_iff l os al m item Hm Hos fuel acc a rem pos Hf). eauto.
  - unfold to_usize in Hm. destruct (int_max l <? two64); discriminate.
  - rewrite (Hnil ltac:(eauto)) in *. cbn [fold_items] in Hfold. injection Hfold as <-.
    destruct fuel as [|fuel]; [lia|]. apply chain_nil_fold with (m := 0). exact Hc.
Qed.
