(* KernelIoFacts.v — the window arithmetic of the IO buffer model IS that of io/src/common/io.rs, and the
   buffer capacity is the formula of the four io() constructors (Generated/Kernel.v, translated from the
   current source by tools/translate.py on every run).  See KernelFacts.v. *)
From Coq Require Import List NArith Bool Lia.
From Flatty.Model Require Import Base Io.
From Flatty.Generated Require Import Kernel.
Open Scope N_scope.

Definition with_window (b : buffer) (w : option (N * N)) : res buffer :=
  match w with
  | None => Crash PanicAssert
  | Some (s, e) => Ok {| data := data b; st := s; en := e |}
  end.

Lemma k_io_capacity MIN mml :
  io_capacity MIN mml = g_io_capacity_recv MIN mml /\ io_capacity MIN mml = g_io_capacity_send MIN mml /\
  io_capacity MIN mml = g_io_capacity_arecv MIN mml /\ io_capacity MIN mml = g_io_capacity_asend MIN mml.
Proof.
  unfold io_capacity, g_io_capacity_recv, g_io_capacity_send, g_io_capacity_arecv, g_io_capacity_asend.
  destruct (N.ltb_spec mml MIN) as [H | H].
  - rewrite (N.max_r mml MIN) by lia. repeat split; reflexivity.
  - rewrite (N.max_l mml MIN) by lia. repeat split; reflexivity.
Qed.

Lemma k_buf_vacant_len b : vacant_len b = g_buf_vacant_len (cap b) (st b) (en b).
Proof. reflexivity. Qed.

Lemma k_buf_occupied b : occupied b = take (g_buf_occupied_len (cap b) (st b) (en b)) (drop (g_buf_preceding_len (cap b) (st b) (en b)) (data b)).
Proof. reflexivity. Qed.

Lemma k_buf_skip count b : skip count b = with_window b (g_buf_skip (cap b) (st b) (en b) count).
Proof.
  unfold skip, g_buf_skip, with_window. cbv zeta.
  destruct (N.ltb_spec (en b) (st b + count)) as [H1 | H1];
    destruct (N.leb_spec (st b + count) (en b)) as [H2 | H2]; try lia; [reflexivity|].
  destruct (N.eqb_spec (st b + count) (en b)) as [H3 | H3];
    destruct (N.ltb_spec (st b + count) (en b)) as [H4 | H4]; try lia; reflexivity.
Qed.

Lemma k_buf_advance count b : advance count b = with_window b (g_buf_advance (cap b) (st b) (en b) count).
Proof.
  unfold advance, g_buf_advance, with_window. cbv zeta.
  destruct (N.ltb_spec (cap b) (en b + count)) as [H1 | H1];
    destruct (N.leb_spec (en b + count) (cap b)) as [H2 | H2]; try lia; reflexivity.
Qed.

Lemma k_buf_clear b : Ok (clear b) = with_window b (g_buf_clear (cap b) (st b) (en b)).
Proof. reflexivity. Qed.

(* make_contiguous: exactly the window is copied, to position g_buf_make_contiguous_copies_window_to = 0,
   and the window becomes the translated one *)
Lemma k_buf_make_contiguous b :
  Ok (make_contiguous b) =
  with_window {| data := take g_buf_make_contiguous_copies_window_to (data b) ++ occupied b
                         ++ drop (g_buf_make_contiguous_copies_window_to + blen (occupied b)) (data b);
                 st := st b; en := en b |}
              (g_buf_make_contiguous (cap b) (st b) (en b)).
Proof. reflexivity. Qed.
