(* ValidateFacts.v — validation never leaves the Ok/Err world (C01). *)
From Coq Require Import List NArith Bool Lia ZArith ZifyN ZifyBool ZifyNat.
From Flatty.Model Require Import Base Ty Layout Utf8 Validate.
From Flatty.Proofs Require Import ArithFacts LayoutFacts BytesFacts.
Open Scope N_scope.

Definition nocrash {A} (r : res A) : Prop := is_crash r = false.

Lemma nocrash_ok {A} (a : A) : nocrash (Ok a).
Proof. reflexivity. Qed.
Lemma nocrash_err {A} k p : nocrash (@Err A k p).
Proof. reflexivity. Qed.
Global Hint Resolve nocrash_ok nocrash_err : core.

Lemma nocrash_bind {A B} (r : res A) (f : A -> res B) :
  nocrash r -> (forall a, r = Ok a -> nocrash (f a)) -> nocrash (bind r f).
Proof. destruct r; cbn; auto. Qed.

Lemma nocrash_shift {A} off (r : res A) : nocrash r -> nocrash (shift off r).
Proof. destruct r; cbn; auto. Qed.

Lemma nocrash_cases {A} (r : res A) : nocrash r -> (exists a, r = Ok a) \/ (exists k p, r = Err k p).
Proof. destruct r; cbn; intros H; eauto; discriminate. Qed.

(* ---------- sizes ---------- *)

Lemma min_size_sized t : sized t = true -> min_size t = ssize t.
Proof. destruct t; cbn; try reflexivity; try discriminate; intros ->; reflexivity. Qed.

(* where the last field's minimum ends when the head field sits at [pos] *)
Fixpoint end_min (fs : fields) (pos : N) : N :=
  match fs with
  | FNil => pos
  | FCons t r =>
      match r with
      | FNil => pos + min_size t
      | FCons t' _ => end_min r (pos_next pos t t')
      end
  end.

Lemma fold_min_size_cons2 acc t t' r :
  fold_min_size acc (FCons t (FCons t' r)) = fold_min_size (ceil_mul acc (align t) + ssize t) (FCons t' r).
Proof. reflexivity. Qed.
Lemma end_min_cons2 pos t t' r :
  end_min (FCons t (FCons t' r)) pos = end_min (FCons t' r) (pos_next pos t t').
Proof. reflexivity. Qed.
Lemma fold_size_cons acc t r : fold_size acc (FCons t r) = fold_size (ceil_mul acc (align t) + ssize t) r.
Proof. reflexivity. Qed.

Lemma fold_min_size_end_min fs : forall acc, fs <> FNil ->
  fold_min_size acc fs = end_min fs (ceil_mul acc (head_align fs)).
Proof.
  induction fs as [|t r IH]; intros acc Hne; [congruence|].
  destruct r as [|t' r'].
  - reflexivity.
  - rewrite fold_min_size_cons2, end_min_cons2. rewrite IH by congruence. reflexivity.
Qed.

Lemma ceil_mul_0 m : ceil_mul 0 m = 0.
Proof.
  unfold ceil_mul. destruct (N.eq_dec m 0) as [->|H]; [reflexivity|].
  replace (0 + m - 1) with (m - 1) by lia. rewrite N.div_small by lia. reflexivity.
Qed.

Lemma fold_min_size_0 fs : fs <> FNil -> fold_min_size 0 fs = end_min fs 0.
Proof. intros H. rewrite fold_min_size_end_min by auto. rewrite ceil_mul_0. reflexivity. Qed.

Lemma end_min_ge fs : wfF fs -> forall pos, pos <= end_min fs pos.
Proof.
  induction fs as [|t r IH]; intros Hw pos; [cbn; lia|].
  apply wfF_cons in Hw. destruct Hw as [Hwt Hr]. destruct r as [|t' r'].
  - cbn. lia.
  - destruct Hr as [Hr|[_ Hr]]; [discriminate|]. rewrite end_min_cons2.
    specialize (IH Hr (pos_next pos t t')). unfold pos_next in *.
    apply wfF_cons in Hr. destruct Hr as [Hwt' _].
    pose proof (ceil_mul_ge (pos + ssize t) (align t') (align_pos _ Hwt')). lia.
Qed.

Lemma fold_min_size_sized fs : wf_fields_sized fs = true -> forall acc, fold_min_size acc fs = fold_size acc fs.
Proof.
  induction fs as [|t r IH]; intros Hw acc; [reflexivity|].
  cbn in Hw. rewrite !andb_true_iff in Hw. destruct Hw as [[Hwt Hs] Hr].
  destruct r as [|t' r'].
  - cbn. rewrite min_size_sized by auto. reflexivity.
  - rewrite fold_min_size_cons2, fold_size_cons. apply IH. exact Hr.
Qed.

Lemma fold_size_ge fs : forall acc, acc <= fold_size acc fs \/ True.
Proof. intros; right; exact I. Qed.

Lemma vnth_max_fold_size vs : forall k fs, vnth k vs = Some fs -> fold_size 0 fs <= max_fold_size vs.
Proof.
  induction vs as [|f r IH]; intros k fs H; [destruct k; discriminate|].
  cbn [max_fold_size]. rewrite umax_spec. destruct k as [|k'].
  - cbn in H. injection H as ->. lia.
  - cbn in H. specialize (IH _ _ H). lia.
Qed.

Lemma umax_ge_l a b : a <= umax a b.
Proof. rewrite umax_spec. lia. Qed.
Lemma umax_ge_r a b : b <= umax a b.
Proof. rewrite umax_spec. lia. Qed.

(* ---------- loops ---------- *)

Lemma arr_loop_nocrash f s bs : forall k i,
  bytes_ok bs = true ->
  (i + N.of_nat k) * s <= blen bs ->
  (forall j el, blen el = s -> bytes_ok el = true -> nocrash (f j el)) ->
  nocrash (arr_loop f s bs k i).
Proof.
  induction k as [|k IH]; intros i Hb Hlen Hf; [apply nocrash_ok|].
  cbn [arr_loop]. unfold drop_unchecked, take_unchecked.
  assert (H1 : i * s <= blen bs) by nia.
  destruct (N.leb_spec (i * s) (blen bs)); [|lia]. cbn [bind].
  rewrite blen_drop.
  assert (H2 : s <= blen bs - i * s) by nia.
  destruct (N.leb_spec s (blen bs - i * s)); [|lia]. cbn [bind].
  apply nocrash_bind.
  - apply nocrash_shift. apply Hf.
    + rewrite blen_take_le; [reflexivity|]. rewrite blen_drop. lia.
    + apply bytes_ok_take, bytes_ok_drop, Hb.
  - intros _ _. apply IH; auto. nia.
Qed.

Lemma to_usize_ok v : v < two64 -> to_usize v = Ok v.
Proof. intros H. unfold to_usize. destruct (N.ltb_spec v two64); [reflexivity|lia]. Qed.

Lemma int_max_lt_two64 l : narrow l = true -> int_max l < two64.
Proof.
  unfold narrow, int_max. rewrite N.leb_le. intros H. rewrite two64_pow.
  pose proof (pow256_mono _ _ H). assert (0 < 256 ^ isize l) by (apply N.neq_0_lt_0, N.pow_nonzero; lia). lia.
Qed.

Lemma read_len_ok l bs : narrow l = true -> bytes_ok bs = true -> isize l <= blen bs ->
  exists v, read_len l bs = Ok v /\ v <= int_max l.
Proof.
  intros Hn Hb Hl. destruct (read_int_ok l bs Hl) as (v & Hr & Hv). specialize (Hv Hb).
  unfold read_len. rewrite Hr. cbn [bind]. exists v.
  unfold narrow in Hn. rewrite N.leb_le in Hn. pose proof (pow256_mono _ _ Hn). rewrite <- two64_pow in *.
  rewrite to_usize_ok by lia. split; [reflexivity|]. unfold int_max. lia.
Qed.

Lemma clamp_cap_ok l slots : narrow l = true -> clamp_cap l slots = Ok (umin slots (int_max l)).
Proof.
  intros Hn. unfold clamp_cap. rewrite to_usize_ok by (apply int_max_lt_two64; auto). reflexivity.
Qed.

(* FlexVec walk: every step consumes at least the slot, so fuel > |rem| suffices *)
Lemma flex_fold_nocrash {A} l os al (item : A -> N -> N -> bytes -> res A) :
  narrow l = true -> 0 < os -> isize l <= os ->
  (forall acc pos pa payload, bytes_ok payload = true -> nocrash (item acc pos pa payload)) ->
  forall fuel acc a rem pos,
    bytes_ok rem = true -> (length rem < fuel)%nat ->
    nocrash (flex_fold l os al item fuel acc a rem pos).
Proof.
  intros Hn Hos Hlos Hitem. induction fuel as [|fuel IH]; intros acc a rem pos Hb Hf; [lia|].
  cbn [flex_fold].
  destruct (negb (aligned a (ialign l))); [apply nocrash_err|].
  destruct (N.ltb_spec (blen rem) (isize l)) as [Hs|Hs]; [apply nocrash_err|].
  destruct (read_int_ok l rem Hs) as (raw & Hr & Hv). specialize (Hv Hb). rewrite Hr. cbn [bind].
  assert (Hraw : raw < two64).
  { unfold narrow in Hn. rewrite N.leb_le in Hn. pose proof (pow256_mono _ _ Hn). rewrite <- two64_pow in *. lia. }
  rewrite to_usize_ok by auto. cbn [bind].
  destruct (N.eqb_spec raw 0); [apply nocrash_ok|].
  rewrite to_usize_ok by (apply int_max_lt_two64; auto). cbn [bind].
  destruct (N.ltb_spec raw os) as [H1|H1]; [apply nocrash_err|].
  destruct (raw =? int_max l) eqn:Elast; cbn [negb andb orb].
  2: destruct (negb (raw mod al =? 0)); [apply nocrash_err|].
  - destruct (N.ltb_spec (blen rem) os) as [H2|H2]; [apply nocrash_err|].
    unfold split_at. destruct (N.leb_spec os (blen rem)); [|lia]. cbn [bind snd].
    apply nocrash_bind.
    + apply Hitem. apply bytes_ok_drop; auto.
    + intros; apply nocrash_ok.
  - destruct (N.ltb_spec (blen rem) raw) as [H2|H2]; cbn [orb]; [apply nocrash_err|].
    destruct (N.ltb_spec (blen rem) os) as [H3|H3]; [apply nocrash_err|].
    unfold split_at. destruct (N.leb_spec raw (blen rem)); [|lia]. cbn [bind fst snd].
    rewrite blen_take_le by lia. destruct (N.leb_spec os raw); [|lia]. cbn [bind snd].
    apply nocrash_bind.
    + apply Hitem. apply bytes_ok_drop, bytes_ok_take; auto.
    + intros acc' _. apply IH.
      * apply bytes_ok_drop; auto.
      * unfold drop. rewrite skipn_length. unfold blen in *. lia.
Qed.

(* ---------- the main induction ---------- *)

Lemma check_align_min_ok t a bs : check_align_min t a bs = Ok tt -> min_size t <= blen bs.
Proof.
  unfold check_align_min. destruct (negb (aligned a (align t))); [discriminate|].
  destruct (N.ltb_spec (blen bs) (min_size t)); [discriminate|]. auto.
Qed.

Lemma check_align_min_nocrash t a bs : nocrash (check_align_min t a bs).
Proof.
  unfold check_align_min. destruct (negb (aligned a (align t))); [apply nocrash_err|].
  destruct (blen bs <? min_size t); auto.
Qed.

Lemma validate_fields_cons2 t t' r a data pos :
  validate_fields (FCons t (FCons t' r)) a data pos =
  (do _ <- shift pos (validate_u t a data);
   let np := pos_next pos t t' in
   do sp <- split_at (np - pos) data;
   validate_fields (FCons t' r) (a + (np - pos)) (snd sp) np).
Proof. reflexivity. Qed.

Lemma validate_fields_single t a data pos :
  validate_fields (FCons t FNil) a data pos = (do _ <- shift pos (validate_u t a data); Ok tt).
Proof. reflexivity. Qed.

Lemma min_size_enum_ge tag d vs : wf (TEnum false tag d vs) = true ->
  data_offset tag vs <= min_size (TEnum false tag d vs).
Proof.
  intros Hw. apply wf_enum_inv in Hw. destruct Hw as (Hi & Hn & _ & _ & _ & Hv).
  cbn [min_size]. unfold data_offset.
  set (a := umax (ialign tag) (align_variants vs)).
  assert (Ha : 0 < a).
  { apply P16_pos, P16_umax; [apply wf_int_P16 in Hi; tauto | eapply align_variants_P16; eauto]. }
  pose proof (ceil_mul_ge (ceil_mul (isize tag) a + min_data_min_size vs) a Ha). lia.
Qed.

Lemma isize_le_data_offset tag vs : 0 < umax (ialign tag) (align_variants vs) -> isize tag <= data_offset tag vs.
Proof. intros H. unfold data_offset. apply ceil_mul_ge. exact H. Qed.

Lemma validate_nocrash_mut :
  (forall t, wf t = true -> narrow_ty t = true -> forall a bs,
      bytes_ok bs = true -> min_size t <= blen bs -> nocrash (validate_u t a bs)) /\
  (forall fs, wfF fs -> narrow_fields fs = true -> forall a data pos,
      bytes_ok data = true -> end_min fs pos <= pos + blen data -> nocrash (validate_fields fs a data pos)) /\
  (forall vs s, wf_variants s vs = true -> narrow_variants vs = true -> forall k a data,
      bytes_ok data = true -> (N.of_nat k < vlen vs) ->
      (s = true -> max_fold_size vs <= blen data) -> nocrash (validate_variant vs k s a data)).
Proof.
  apply ty_mutind.
  - (* TUnit *) intros; apply nocrash_ok.
  - (* TInt *) intros; apply nocrash_ok.
  - (* TBool *) intros _ _ a bs Hb Hm. cbn in Hm. destruct bs as [|b r].
    + cbn in Hm. lia.
    + cbn. destruct (b <=? 1); auto.
  - (* TCLike *) intros tag n d Hw Hn a bs Hb Hm. cbn in Hm. cbn [validate_u].
    destruct (read_int_ok tag bs Hm) as (v & -> & _). cbn [bind]. destruct (v <? n); auto.
  - (* TArr *) intros t IH n Hw Hn a bs Hb Hm. cbn in Hw, Hn, Hm. rewrite andb_true_iff in Hw. destruct Hw as [Hwt Hs].
    cbn [validate_u]. apply arr_loop_nocrash; auto.
    + rewrite N2Nat.id. lia.
    + intros j el Hl Hbe. apply IH; auto. rewrite min_size_sized by auto. lia.
  - (* TVec *) intros t IH l Hw Hn a bs Hb Hm.
    apply wf_vec_inv in Hw. destruct Hw as (Hwt & Hs & Hl).
    apply narrow_vec_inv in Hn. destruct Hn as [Hnt Hnl]. cbn [min_size] in Hm. cbn [validate_u].
    fold (vec_data_offset t l) in Hm. set (d := vec_data_offset t l) in *.
    assert (Hal : 0 < align (TVec t l)).
    { cbn [align]. apply P16_pos, P16_umax; [apply wf_int_P16 in Hl; tauto | apply align_P16; auto]. }
    assert (Hdl : isize l <= d) by (unfold d, vec_data_offset; apply umax_ge_l).
    unfold vec_slots. fold d. destruct (N.ltb_spec (blen bs) d); [lia|].
    destruct (read_len_ok l bs Hnl Hb ltac:(lia)) as (len & Hlen & Hlm).
    destruct (N.eqb_spec (ssize t) 0) as [Hz|Hz]; cbn [bind]; rewrite Hlen; cbn [bind];
      rewrite clamp_cap_ok by auto; cbn [bind].
    + (* zero-sized items: no slots *)
      rewrite umin_spec. destruct (N.ltb_spec (N.min 0 (int_max l)) len); [apply nocrash_err|].
      assert (len = 0) by lia. subst len.
      unfold drop_unchecked. destruct (N.leb_spec d (blen bs)); [|lia]. cbn [bind]. apply nocrash_ok.
    + set (room := floor_mul (blen bs - d) (align (TVec t l))).
      rewrite umin_spec. destruct (N.ltb_spec (N.min (room / ssize t) (int_max l)) len); [apply nocrash_err|].
      unfold drop_unchecked. destruct (N.leb_spec d (blen bs)); [|lia]. cbn [bind].
      apply arr_loop_nocrash.
      * apply bytes_ok_drop; auto.
      * rewrite N2Nat.id, blen_drop.
        assert (len <= room / ssize t) by lia.
        assert (room <= blen bs - d) by (apply floor_mul_le; auto).
        pose proof (N.mul_div_le room (ssize t) Hz). nia.
      * intros j el Hel Hbe. apply nocrash_shift. apply IH; auto. rewrite min_size_sized by auto. lia.
  - (* TStr *) intros l Hw Hn a bs Hb Hm. cbn in Hw, Hn, Hm. cbn [validate_u].
    unfold str_slots. destruct (N.ltb_spec (blen bs) (isize l)); [lia|]. cbn [bind].
    destruct (read_len_ok l bs Hn Hb Hm) as (len & Hlen & Hlm). rewrite Hlen. cbn [bind].
    rewrite clamp_cap_ok by auto. cbn [bind]. rewrite umin_spec.
    assert (Hal : 0 < ialign l) by (apply wf_int_P16 in Hw; apply P16_pos; tauto).
    set (room := floor_mul (blen bs - isize l) (ialign l)).
    destruct (N.ltb_spec (N.min room (int_max l)) len); [apply nocrash_err|].
    unfold drop_unchecked. destruct (N.leb_spec (isize l) (blen bs)); [|lia]. cbn [bind].
    unfold take_unchecked. rewrite blen_drop.
    assert (room <= blen bs - isize l) by (apply floor_mul_le; auto).
    destruct (N.leb_spec len (blen bs - isize l)); [|lia]. cbn [bind].
    destruct (utf8_err _); auto.
  - (* TFlex *) intros t IH l Hw Hn a bs Hb Hm.
    apply wf_flex_inv in Hw. destruct Hw as [Hwt Hl].
    apply narrow_flex_inv in Hn. destruct Hn as [Hnt Hnl]. cbn [validate_u].
    apply nocrash_bind; [|intros; apply nocrash_ok].
    assert (Hos : 0 < flex_offset_size t l).
    { unfold flex_offset_size. pose proof (umax_ge_r (isize l) (align t)). pose proof (align_pos _ Hwt). lia. }
    assert (Hlos : isize l <= flex_offset_size t l) by (unfold flex_offset_size; apply umax_ge_l).
    apply (flex_fold_nocrash l _ _ _ Hnl Hos Hlos).
    + intros acc pos pa payload Hbp. apply nocrash_shift.
      apply nocrash_bind; [apply check_align_min_nocrash|].
      intros [] Hc. apply IH; auto. eapply check_align_min_ok; eauto.
    + apply bytes_ok_take; auto.
    + unfold flex_fuel. lia.
  - (* TStruct *) intros s fs IH Hw Hn a bs Hb Hm. cbn [validate_u]. cbn in Hn.
    destruct (wf_struct_wfF _ _ Hw) as [Hnil|Hf].
    { subst fs. destruct s; apply nocrash_ok. }
    apply IH; auto.
    + destruct s; auto. apply bytes_ok_take; auto.
    + rewrite N.add_0_l. destruct fs as [|t0 r0]; [cbn; lia|].
      rewrite <- fold_min_size_0 by congruence.
      pose proof (align_fields_P16 (FCons t0 r0) (or_intror Hf)) as Hp. pose proof (P16_pos _ Hp) as Hpos.
      destruct s.
      * cbn [wf] in Hw. rewrite fold_min_size_sized by auto.
        cbn [min_size ssize] in Hm.
        pose proof (ceil_mul_ge (fold_size 0 (FCons t0 r0)) (align_fields (FCons t0 r0)) Hpos). lia.
      * cbn [min_size] in Hm. rewrite blen_take.
        set (m := fold_min_size 0 (FCons t0 r0)) in *. set (al := align_fields (FCons t0 r0)) in *.
        pose proof (ceil_mul_ge m al Hpos).
        pose proof (floor_mul_ge_mult (blen bs) (ceil_mul m al) al Hpos Hm (ceil_mul_mod _ _ Hpos)).
        pose proof (floor_mul_le (blen bs) al Hpos). lia.
  - (* TEnum *) intros s tag d vs IH Hw Hn a bs Hb Hm.
    pose proof Hw as Hw0. apply wf_enum_inv in Hw. destruct Hw as (Hi & Hnat & Hv1 & Hv2 & Hd & Hv).
    apply narrow_enum_inv in Hn. destruct Hn as [Hnt Hnv]. cbn [validate_u].
    set (al := umax (ialign tag) (align_variants vs)) in *.
    assert (Hal : 0 < al).
    { apply P16_pos, P16_umax; [apply wf_int_P16 in Hi; tauto | eapply align_variants_P16; eauto]. }
    pose proof (isize_le_data_offset tag vs Hal) as Hdo.
    assert (Hd2 : data_offset tag vs <= blen bs /\ (s = true -> max_fold_size vs <= blen bs - data_offset tag vs)).
    { destruct s.
      - cbn [min_size ssize] in Hm. fold al in Hm. unfold data_offset. fold al.
        pose proof (ceil_mul_ge (ceil_mul (isize tag) al + max_fold_size vs) al Hal). split; [lia|]. intros _. lia.
      - pose proof (min_size_enum_ge _ _ _ Hw0). split; [lia|]. discriminate. }
    destruct Hd2 as [Hd2 Hd3].
    destruct (read_int_ok tag bs ltac:(lia)) as (v & -> & _). cbn [bind].
    destruct (N.ltb_spec v (vlen vs)) as [Hlt|Hge]; cbn [negb]; [|apply nocrash_err].
    unfold drop_unchecked. destruct (N.leb_spec (data_offset tag vs) (blen bs)); [|lia]. cbn [bind].
    apply nocrash_shift. apply (IH s); auto.
    + destruct s; [apply bytes_ok_drop; auto|]. apply bytes_ok_take, bytes_ok_drop; auto.
    + rewrite N2Nat.id. exact Hlt.
    + intros ->. rewrite blen_drop. auto.
  - (* FNil *) intros; apply nocrash_ok.
  - (* FCons *) intros t IHt r IHr Hw Hn a data pos Hb He.
    cbn [narrow_fields] in Hn. rewrite andb_true_iff in Hn. destruct Hn as [Hnt Hnr].
    pose proof Hw as Hw0. apply wfF_cons in Hw. destruct Hw as [Hwt Hr].
    destruct r as [|t' r'].
    + rewrite validate_fields_single. cbn [end_min] in He.
      apply nocrash_bind; [|intros; apply nocrash_ok]. apply nocrash_shift. apply IHt; auto. lia.
    + destruct Hr as [Hr|[Hst Hr]]; [discriminate|].
      rewrite validate_fields_cons2. rewrite end_min_cons2 in He.
      pose proof (end_min_ge _ Hr (pos_next pos t t')) as Hge.
      assert (Hnp : pos + ssize t <= pos_next pos t t').
      { unfold pos_next. apply ceil_mul_ge. apply wfF_cons in Hr. apply align_pos. tauto. }
      apply nocrash_bind.
      * apply nocrash_shift. apply IHt; auto. rewrite min_size_sized by auto. lia.
      * intros _ _. cbv zeta. unfold split_at.
        destruct (N.leb_spec (pos_next pos t t' - pos) (blen data)); [|lia]. cbn [bind snd].
        apply IHr; auto.
        -- apply bytes_ok_drop; auto.
        -- rewrite blen_drop. lia.
  - (* VNil *) intros s _ _ k a data _ Hk. cbn in Hk. lia.
  - (* VCons *) intros fs IHf r IHr s Hw Hn k a data Hb Hk Hs.
    cbn [narrow_variants] in Hn. rewrite andb_true_iff in Hn. destruct Hn as [Hnf Hnr].
    pose proof Hw as Hw0. apply wf_variants_cons in Hw. destruct Hw as [Hf Hr].
    cbn [validate_variant]. destruct k as [|k'].
    + destruct (negb s && (blen data <? data_min_size fs)) eqn:Echk; [apply nocrash_err|].
      destruct Hf as [->|Hf]; [apply nocrash_ok|].
      apply IHf; auto. rewrite N.add_0_l.
      destruct fs as [|t0 r0]; [cbn; lia|]. rewrite <- fold_min_size_0 by congruence.
      destruct s.
      * specialize (Hs eq_refl). cbn [max_fold_size] in Hs.
        cbn [wf_variants] in Hw0. rewrite andb_true_iff in Hw0. destruct Hw0 as [Hfs _].
        rewrite fold_min_size_sized by auto. pose proof (umax_ge_l (fold_size 0 (FCons t0 r0)) (max_fold_size r)). lia.
      * cbn [negb andb] in Echk. unfold data_min_size in Echk. rewrite N.ltb_ge in Echk. exact Echk.
    + apply IHr; auto.
      * cbn [vlen] in Hk. lia.
      * intros Hst. specialize (Hs Hst). cbn [max_fold_size] in Hs.
        pose proof (umax_ge_r (fold_size 0 fs) (max_fold_size r)). lia.
Qed.

Theorem validate_total t a bs :
  wf t = true -> narrow_ty t = true -> bytes_ok bs = true ->
  validate t a bs = Ok tt \/ exists k p, validate t a bs = Err k p.
Proof.
  intros Hw Hn Hb.
  assert (H : nocrash (validate t a bs)).
  { unfold validate. apply nocrash_bind; [apply check_align_min_nocrash|].
    intros [] Hc. apply validate_nocrash_mut; auto. eapply check_align_min_ok; eauto. }
  destruct (nocrash_cases _ H) as [[[] ->]|(k & p & ->)]; eauto.
Qed.
