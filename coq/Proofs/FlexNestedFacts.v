(* FlexNestedFacts.v — an item of a FlexVec that is itself a FlexVec, edited in place
   (Model/Ops.v flex_edit_flex): the outer vector sees the edit of one item exactly as it sees
   the FlatVec / assignment edits of Proofs/FlexOpsFacts.v section 5; the item-level operation
   is flex_op at the item type.  Pinned in Props/C12_nested.v. *)
From Coq Require Import List NArith Bool Lia ZArith ZifyN ZifyBool ZifyNat.
From Flatty.Model Require Import Base Ty Layout Validate View Emplace Ops.
From Flatty.Proofs Require Import ArithFacts LayoutFacts BytesFacts ValidateFacts ChainFacts ViewFacts
  EmplaceSpec FlexOpsFacts.
Import ListNotations.
Open Scope N_scope.

(* ---------- bytes ---------- *)

Lemma nested_drop_app_le n (x y : bytes) : n <= blen x -> drop n (x ++ y) = drop n x ++ y.
Proof.
  intros Hn. rewrite <- (take_drop n x) at 1. rewrite <- app_assoc.
  apply drop_app_at. apply blen_take_le. exact Hn.
Qed.

(* a segment cut out and put back *)
Lemma nested_seg_back p n (d : bytes) : take p d ++ take n (drop p d) ++ drop (p + n) d = d.
Proof.
  rewrite <- (drop_drop n p d). rewrite (take_drop n (drop p d)). apply take_drop.
Qed.

(* what one sees of a slice whose segment [p, p+n) was replaced by np *)
Lemma nested_replace_facts p n (d np tl : bytes) : p + n <= blen d -> blen np = n ->
  let d' := (take p d ++ np ++ drop (p + n) d) ++ tl in
  take p d' = take p (d ++ tl) /\ drop (p + n) d' = drop (p + n) (d ++ tl) /\ take n (drop p d') = np.
Proof.
  intros Hroom Hnp d'.
  assert (Hx : blen (take p d) = p) by (apply blen_take_le; lia).
  split; [|split].
  - unfold d'. rewrite <- app_assoc. rewrite (take_app_at p _ _ Hx).
    rewrite take_app_le by lia. reflexivity.
  - unfold d'. rewrite (nested_drop_app_le (p + n) d tl Hroom).
    rewrite <- !app_assoc. rewrite (app_assoc (take p d) np).
    apply drop_app_at. rewrite blen_app, Hx, Hnp. reflexivity.
  - unfold d'. rewrite <- !app_assoc. rewrite (drop_app_at p _ _ Hx).
    apply take_app_at. exact Hnp.
Qed.

(* ---------- the view of a FlexVec is a node of its items ---------- *)

Lemma flex_view_node et l a bs v : wf (TFlex et l) = true -> narrow l = true ->
  validate (TFlex et l) a bs = Ok tt -> view (TFlex et l) bs = Ok v -> exists ws, v = VNode 0 ws.
Proof.
  intros Hw Hnar Hv Hview. destruct (valid_unpack et l a Hw bs Hv) as (items & e & ws & Hst).
  destruct (fstate_facts et l a Hw Hnar _ _ _ _ Hst) as (_ & Hview0 & _).
  rewrite Hview in Hview0. injection Hview0 as ->. exists ws. reflexivity.
Qed.

(* ---------- a refused pop returns the slice it was given, whatever the slice ---------- *)

Lemma flex_pop_refused_same pv t a bs :
  snd (flex_op pv t a FPop bs) = ORefused -> fst (flex_op pv t a FPop bs) = bs.
Proof.
  unfold flex_op. destruct t as [| | | | | | |et l| |]; cbn [fst snd]; try discriminate.
  cbv zeta.
  destruct (flex_chain l (flex_offset_size et l) (align (TFlex et l))
              (take (floor_mul (blen bs) (align (TFlex et l))) bs)) as [[items fin]|k p|c];
    cbn [fst snd]; try discriminate.
  destruct (N.of_nat (length items) =? 0); cbn [fst snd]; [reflexivity|].
  unfold flex_truncate.
  destruct (N.of_nat (length items) - 1 =? 0); cbn [snd]; [discriminate|].
  destruct (flex_chain l (flex_offset_size et l) (align (TFlex et l))
              (take (floor_mul (blen bs) (align (TFlex et l))) bs)) as [[items2 fin2]|k p|c];
    cbn [snd]; try discriminate.
  destruct (nth_error items2 (N.to_nat (N.of_nat (length items) - 1))) as [[pos plen]|]; cbn [snd]; discriminate.
Qed.

Theorem flex_edit_flex_refused pv t a j bs :
  snd (flex_edit_flex pv t a j FPop bs) = ORefused -> fst (flex_edit_flex pv t a j FPop bs) = bs.
Proof.
  unfold flex_edit_flex. destruct t as [| | | | | | |et l| |]; cbn [fst snd]; try discriminate.
  destruct et as [| | | | | | |it il| |]; cbn [fst snd]; try discriminate.
  cbv zeta.
  set (os := flex_offset_size (TFlex it il) l). set (al := align (TFlex (TFlex it il) l)).
  set (data := take (floor_mul (blen bs) al) bs).
  destruct (flex_chain l os al data) as [[items fin]|k p|c]; cbn [fst snd]; try discriminate.
  destruct (nth_error items (N.to_nat j)) as [[pos plen]|]; cbn [fst snd]; try discriminate.
  intros Hr. rewrite (flex_pop_refused_same _ _ _ _ Hr).
  rewrite !app_assoc. rewrite <- (app_assoc (take (pos + os) data)).
  rewrite (nested_seg_back (pos + os) plen data). apply take_drop.
Qed.

(* ---------- the edit ---------- *)

Section Nested.
  Variables (pv : option N) (it : ty) (il l : intty) (a : N).
  Local Notation et := (TFlex it il).
  Local Notation t := (TFlex (TFlex it il) l).
  Local Notation os := (flex_offset_size (TFlex it il) l).
  Local Notation al := (align (TFlex (TFlex it il) l)).
  Hypothesis Hw : wf t = true.
  Hypothesis Hnar : narrow l = true.

  (* flex_edit_flex in the shape of the edits of flex_op *)
  Lemma flex_edit_flex_eq j fo bs its fin : flex_chain l os al (flex_data et l bs) = Ok (its, fin) ->
    flex_edit_flex pv t a j fo bs =
    match nth_error its (N.to_nat j) with
    | Some (pos, plen) =>
        let r := flex_op pv et (a + pos + os) fo (take plen (drop (pos + os) (flex_data et l bs))) in
        ((take (pos + os) (flex_data et l bs) ++ fst r ++ drop (pos + os + plen) (flex_data et l bs))
           ++ drop (floor_mul (blen bs) al) bs, snd r)
    | None => (bs, OPanic)
    end.
  Proof.
    intros H. unfold flex_data in *. unfold flex_edit_flex. cbv zeta. rewrite H.
    destruct (nth_error its (N.to_nat j)) as [[pos plen]|]; [|reflexivity].
    f_equal. rewrite <- !app_assoc. reflexivity.
  Qed.

  (* item j of a valid image, and the call as the item-level operation on its payload *)
  Lemma nested_item j fo bs items e vs : fstate et l a bs items e vs ->
    let r := flex_edit_flex pv t a j fo bs in
    (nth_error vs (N.to_nat j) = None -> r = (bs, OPanic)) /\
    (forall v, nth_error vs (N.to_nat j) = Some v ->
       exists p pa pl, nth_error items (N.to_nat j) = Some (p, pa, pl) /\ view et pl = Ok v /\
         r = ((take (p + os) (flex_data et l bs) ++ fst (flex_op pv et pa fo pl) ++
               drop (p + os + blen pl) (flex_data et l bs)) ++ drop (floor_mul (blen bs) al) bs,
              snd (flex_op pv et pa fo pl))).
  Proof.
    intros Hst r. destruct (fstate_facts et l a Hw Hnar _ _ _ _ Hst) as (_ & _ & _ & Hfc).
    pose proof Hst as (_ & _ & Hvs & _). pose proof (Forall2_len _ _ _ Hvs) as Hlen.
    unfold r. rewrite (flex_edit_flex_eq j fo bs _ _ Hfc). split.
    - intros Hnone. apply nth_error_None in Hnone.
      assert (Hn2 : nth_error (map item_pl items) (N.to_nat j) = None)
        by (apply nth_error_None; rewrite map_length; lia).
      rewrite Hn2. reflexivity.
    - intros v Hsome.
      destruct (nth_error items (N.to_nat j)) as [[[p pa] pl]|] eqn:Hnth.
      2:{ apply nth_error_None in Hnth. assert (Hs : nth_error vs (N.to_nat j) <> None) by congruence.
          apply nth_error_Some in Hs. lia. }
      rewrite (map_nth_error item_pl _ _ Hnth). unfold item_pl. cbn [item_pos fst snd]. cbv zeta.
      destruct (edit_state et l a Hw Hnar _ bs items e vs p pa pl Hst Hnth)
        as (Hpa & Hroom & Hpl & (v1 & Hv1 & Hviewpl) & _).
      rewrite Hsome in Hv1. injection Hv1 as <-.
      rewrite <- Hpl, <- Hpa. exists p, pa, pl. auto.
  Qed.

  (* iter_mut().nth(j) then a FlexVec operation fo on the item, fo keeping a valid payload valid
     and of the same length *)
  Theorem flex_edit_flex_ok j fo bs vs :
    (forall pa pl, validate et pa pl = Ok tt ->
       blen (fst (flex_op pv et pa fo pl)) = blen pl /\ validate et pa (fst (flex_op pv et pa fo pl)) = Ok tt) ->
    validate t a bs = Ok tt -> view t bs = Ok (VNode 0 vs) ->
    let r := flex_edit_flex pv t a j fo bs in
    (nth_error vs (N.to_nat j) = None -> r = (bs, OPanic)) /\
    (forall v, nth_error vs (N.to_nat j) = Some v ->
       exists pa pl v', validate et pa pl = Ok tt /\ view et pl = Ok v /\
         snd r = snd (flex_op pv et pa fo pl) /\ view et (fst (flex_op pv et pa fo pl)) = Ok v' /\
         blen (fst r) = blen bs /\ validate t a (fst r) = Ok tt /\
         view t (fst r) = Ok (VNode 0 (splice (N.to_nat j) v' vs))).
  Proof.
    intros Hf Hv Hview r. destruct (valid_unpack et l a Hw bs Hv) as (items & e & vs0 & Hst).
    destruct (fstate_facts et l a Hw Hnar _ _ _ _ Hst) as (_ & Hview0 & _). rewrite Hview in Hview0. injection Hview0 as <-.
    pose proof Hw as Hw0. apply wf_flex_inv in Hw0. destruct Hw0 as [Hwt _].
    destruct (nested_item j fo bs items e vs Hst) as [Hnone Hsome]. fold r in Hnone, Hsome.
    split; [exact Hnone|]. intros v Hj.
    destruct (Hsome v Hj) as (p & pa & pl & Hnth & Hviewpl & Hr).
    destruct (edit_state et l a Hw Hnar _ bs items e vs p pa pl Hst Hnth) as (_ & _ & _ & _ & Hvpl & Hnew).
    destruct (Hf pa pl Hvpl) as (Hfl & Hfv).
    destruct (valid_size_view et pa _ Hwt Hfv) as (k' & v' & _ & _ & _ & _ & Hview' & _).
    destruct (Hnew _ v' Hfl Hfv Hview') as (Hbb & Hst').
    destruct (fstate_facts et l a Hw Hnar _ _ _ _ Hst') as (Hv2 & Hview2 & _).
    exists pa, pl, v'. rewrite Hr. cbn [fst snd]. repeat split; auto.
  Qed.

  (* the frame: only the payload of item j changes, and there the result is that of fo; fo only
     has to keep the length of a valid payload *)
  Theorem flex_edit_flex_frame_valid j fo bs vs :
    (forall pa pl, validate et pa pl = Ok tt -> blen (fst (flex_op pv et pa fo pl)) = blen pl) ->
    validate t a bs = Ok tt -> view t bs = Ok (VNode 0 vs) ->
    let r := flex_edit_flex pv t a j fo bs in
    forall v, nth_error vs (N.to_nat j) = Some v ->
      exists p n pa, p + n <= blen bs /\ take p (fst r) = take p bs /\
        drop (p + n) (fst r) = drop (p + n) bs /\
        take n (drop p (fst r)) = fst (flex_op pv et pa fo (take n (drop p bs))) /\
        validate et pa (take n (drop p bs)) = Ok tt /\
        view et (take n (drop p bs)) = Ok v /\
        snd r = snd (flex_op pv et pa fo (take n (drop p bs))) /\ blen (fst r) = blen bs.
  Proof.
    intros Hf Hv Hview r v Hj. destruct (valid_unpack et l a Hw bs Hv) as (items & e & vs0 & Hst).
    destruct (fstate_facts et l a Hw Hnar _ _ _ _ Hst) as (_ & Hview0 & _). rewrite Hview in Hview0. injection Hview0 as <-.
    destruct (nested_item j fo bs items e vs Hst) as [_ Hsome]. fold r in Hsome.
    destruct (Hsome v Hj) as (p & pa & pl & Hnth & Hviewpl & Hr).
    destruct (edit_state et l a Hw Hnar _ bs items e vs p pa pl Hst Hnth) as (_ & Hroom & Hpl & _ & Hvpl & _).
    destruct (flex_data_blen et l bs Hw) as (HF & HFle & _).
    pose proof (Hf pa pl Hvpl) as Hfl.
    assert (Hseg : take (blen pl) (drop (p + os) bs) = pl).
    { rewrite Hpl at 2. unfold flex_data. symmetry. apply seg_take. rewrite <- HF. lia. }
    destruct (nested_replace_facts (p + os) (blen pl) (flex_data et l bs) (fst (flex_op pv et pa fo pl))
                (drop (floor_mul (blen bs) al) bs)) as (H1 & H2 & H3); [lia|exact Hfl|].
    assert (Hbs : flex_data et l bs ++ drop (floor_mul (blen bs) al) bs = bs) by apply take_drop.
    rewrite Hbs in H1, H2.
    exists (p + os), (blen pl), pa. rewrite Hseg, Hr. cbn [fst snd].
    split; [lia|]. split; [exact H1|]. split; [exact H2|]. split; [exact H3|].
    split; [exact Hvpl|]. split; [exact Hviewpl|]. split; [reflexivity|].
    rewrite !blen_app, blen_take_le, !blen_drop, Hfl by lia. lia.
  Qed.

  Theorem flex_edit_flex_frame j fo bs vs :
    (forall pa pl, blen (fst (flex_op pv et pa fo pl)) = blen pl) ->
    validate t a bs = Ok tt -> view t bs = Ok (VNode 0 vs) ->
    let r := flex_edit_flex pv t a j fo bs in
    forall v, nth_error vs (N.to_nat j) = Some v ->
      exists p n pa, p + n <= blen bs /\ take p (fst r) = take p bs /\
        drop (p + n) (fst r) = drop (p + n) bs /\
        take n (drop p (fst r)) = fst (flex_op pv et pa fo (take n (drop p bs))) /\
        validate et pa (take n (drop p bs)) = Ok tt.
  Proof.
    intros Hf Hv Hview r v Hj.
    destruct (flex_edit_flex_frame_valid j fo bs vs (fun pa pl _ => Hf pa pl) Hv Hview v Hj)
      as (p & n & pa & H1 & H2 & H3 & H4 & H5 & _).
    exists p, n, pa. auto.
  Qed.

  (* ---------- the shrinking operations of the inner vector ---------- *)

  Hypothesis Hnari : narrow il = true.

  Lemma wf_inner : wf et = true.
  Proof. pose proof Hw as Hw0. apply wf_flex_inv in Hw0. tauto. Qed.

  (* the inner values of a valid image are nodes *)
  Lemma nested_item_node bs vs j v : validate t a bs = Ok tt -> view t bs = Ok (VNode 0 vs) ->
    nth_error vs (N.to_nat j) = Some v -> exists ws, v = VNode 0 ws.
  Proof.
    intros Hv Hview Hj. destruct (valid_unpack et l a Hw bs Hv) as (items & e & vs0 & Hst).
    destruct (fstate_facts et l a Hw Hnar _ _ _ _ Hst) as (_ & Hview0 & _). rewrite Hview in Hview0. injection Hview0 as <-.
    destruct (nested_item j FClear bs items e vs Hst) as [_ Hsome].
    destruct (Hsome v Hj) as (p & pa & pl & Hnth & Hviewpl & _).
    destruct (edit_state et l a Hw Hnar _ bs items e vs p pa pl Hst Hnth) as (_ & _ & _ & _ & Hvpl & _).
    exact (flex_view_node it il pa pl v wf_inner Hnari Hvpl Hviewpl).
  Qed.

  Lemma shrink_premise fo : (fo = FPop \/ (exists k, fo = FTruncate k) \/ fo = FClear) ->
    forall pa pl, validate et pa pl = Ok tt ->
      blen (fst (flex_op pv et pa fo pl)) = blen pl /\ validate et pa (fst (flex_op pv et pa fo pl)) = Ok tt.
  Proof.
    intros Hfo pa pl Hvpl.
    destruct (valid_size_view et pa pl wf_inner Hvpl) as (k0 & v0 & _ & _ & _ & _ & Hview0 & _).
    destruct (flex_view_node it il pa pl v0 wf_inner Hnari Hvpl Hview0) as (ws & ->).
    destruct Hfo as [->|[(k & ->)| ->]].
    - destruct (flex_pop_ok pv it il pa wf_inner Hnari pl ws Hvpl Hview0) as (_ & _ & Hb & Hv' & _). auto.
    - destruct (flex_truncate_ok pv it il pa wf_inner Hnari k pl ws Hvpl Hview0) as (_ & Hb & Hv' & _). auto.
    - destruct (flex_clear_ok pv it il pa wf_inner Hnari pl Hvpl) as (_ & Hb & Hv' & _). auto.
  Qed.

  Theorem flex_edit_flex_pop j bs vs ws : validate t a bs = Ok tt -> view t bs = Ok (VNode 0 vs) ->
    nth_error vs (N.to_nat j) = Some (VNode 0 ws) ->
    let r := flex_edit_flex pv t a j FPop bs in
    (ws = [] -> snd r = ORefused /\ fst r = bs) /\ (ws <> [] -> snd r = ODone) /\
    blen (fst r) = blen bs /\ validate t a (fst r) = Ok tt /\
    view t (fst r) = Ok (VNode 0 (splice (N.to_nat j) (VNode 0 (removelast ws)) vs)).
  Proof.
    intros Hv Hview Hj r.
    destruct (flex_edit_flex_ok j FPop bs vs (shrink_premise FPop (or_introl eq_refl)) Hv Hview) as [_ Hsome].
    fold r in Hsome. destruct (Hsome _ Hj) as (pa & pl & v' & Hvpl & Hviewpl & Hout & Hview' & Hb & Hv2 & Hview2).
    destruct (flex_pop_ok pv it il pa wf_inner Hnari pl ws Hvpl Hviewpl) as (He & Hne & _ & _ & Hvw & _).
    rewrite Hview' in Hvw. injection Hvw as ->.
    split; [|split; [|auto]].
    - intros Hws. destruct (He Hws) as [Ho _]. rewrite <- Hout in Ho. split; [exact Ho|].
      apply flex_edit_flex_refused. exact Ho.
    - intros Hws. rewrite Hout. apply Hne. exact Hws.
  Qed.

  Theorem flex_edit_flex_truncate j k bs vs ws : validate t a bs = Ok tt -> view t bs = Ok (VNode 0 vs) ->
    nth_error vs (N.to_nat j) = Some (VNode 0 ws) ->
    let r := flex_edit_flex pv t a j (FTruncate k) bs in
    snd r = ODone /\ blen (fst r) = blen bs /\ validate t a (fst r) = Ok tt /\
    view t (fst r) = Ok (VNode 0 (splice (N.to_nat j) (VNode 0 (firstn (N.to_nat k) ws)) vs)).
  Proof.
    intros Hv Hview Hj r.
    destruct (flex_edit_flex_ok j (FTruncate k) bs vs
                (shrink_premise (FTruncate k) (or_intror (or_introl (ex_intro _ k eq_refl)))) Hv Hview) as [_ Hsome].
    fold r in Hsome. destruct (Hsome _ Hj) as (pa & pl & v' & Hvpl & Hviewpl & Hout & Hview' & Hb & Hv2 & Hview2).
    destruct (flex_truncate_ok pv it il pa wf_inner Hnari k pl ws Hvpl Hviewpl) as (Ho & _ & _ & Hvw & _).
    rewrite Hview' in Hvw. injection Hvw as ->. rewrite Hout. auto.
  Qed.

  Theorem flex_edit_flex_clear j bs vs ws : validate t a bs = Ok tt -> view t bs = Ok (VNode 0 vs) ->
    nth_error vs (N.to_nat j) = Some (VNode 0 ws) ->
    let r := flex_edit_flex pv t a j FClear bs in
    snd r = ODone /\ blen (fst r) = blen bs /\ validate t a (fst r) = Ok tt /\
    view t (fst r) = Ok (VNode 0 (splice (N.to_nat j) (VNode 0 []) vs)).
  Proof.
    intros Hv Hview Hj r.
    destruct (flex_edit_flex_ok j FClear bs vs
                (shrink_premise FClear (or_intror (or_intror eq_refl))) Hv Hview) as [_ Hsome].
    fold r in Hsome. destruct (Hsome _ Hj) as (pa & pl & v' & Hvpl & Hviewpl & Hout & Hview' & Hb & Hv2 & Hview2).
    destruct (flex_clear_ok pv it il pa wf_inner Hnari pl Hvpl) as (Ho & _ & _ & Hvw & _).
    rewrite Hview' in Hvw. injection Hvw as ->. rewrite Hout. auto.
  Qed.

  (* ---------- push into the inner vector, sized inner items ---------- *)

  Lemma push_sized_premise i : wf it = true -> sized it = true -> init_ok it i = true ->
    forall pa pl, validate et pa pl = Ok tt ->
      blen (fst (flex_op pv et pa (FPush i) pl)) = blen pl /\
      validate et pa (fst (flex_op pv et pa (FPush i) pl)) = Ok tt.
  Proof.
    intros Hwi Hsi Hi pa pl Hvpl.
    destruct (valid_size_view et pa pl wf_inner Hvpl) as (k0 & v0 & Hk0 & _ & _ & _ & Hview0 & _).
    destruct (flex_view_node it il pa pl v0 wf_inner Hnari Hvpl Hview0) as (ws & ->).
    destruct (flex_push_ok pv it il pa wf_inner Hnari (sized_item_ok pv it Hwi Hsi)
                (sized_item_len pv it Hwi Hsi) (sized_item_nocrash pv it Hwi Hsi) i pl ws k0 Hi Hvpl Hview0 Hk0)
      as (Hb & Hv' & _).
    auto.
  Qed.

  Theorem flex_edit_flex_push_sized j i bs vs : wf it = true -> sized it = true -> init_ok it i = true ->
    validate t a bs = Ok tt -> view t bs = Ok (VNode 0 vs) ->
    let r := flex_edit_flex pv t a j (FPush i) bs in
    (nth_error vs (N.to_nat j) = None -> r = (bs, OPanic)) /\
    (forall v, nth_error vs (N.to_nat j) = Some v ->
       exists pa pl v', validate et pa pl = Ok tt /\ view et pl = Ok v /\
         snd r = snd (flex_op pv et pa (FPush i) pl) /\ view et (fst (flex_op pv et pa (FPush i) pl)) = Ok v' /\
         blen (fst r) = blen bs /\ validate t a (fst r) = Ok tt /\
         view t (fst r) = Ok (VNode 0 (splice (N.to_nat j) v' vs))).
  Proof.
    intros Hwi Hsi Hi. apply flex_edit_flex_ok. apply push_sized_premise; assumption.
  Qed.

  (* ---------- the frame without a premise: the shrinking operations, the push of a sized item ---------- *)

  Theorem flex_edit_flex_frame_shrink j fo bs vs : (fo = FPop \/ (exists k, fo = FTruncate k) \/ fo = FClear) ->
    validate t a bs = Ok tt -> view t bs = Ok (VNode 0 vs) ->
    let r := flex_edit_flex pv t a j fo bs in
    forall v, nth_error vs (N.to_nat j) = Some v ->
      exists p n pa, p + n <= blen bs /\ take p (fst r) = take p bs /\
        drop (p + n) (fst r) = drop (p + n) bs /\
        take n (drop p (fst r)) = fst (flex_op pv et pa fo (take n (drop p bs))) /\
        validate et pa (take n (drop p bs)) = Ok tt.
  Proof.
    intros Hfo Hv Hview r v Hj.
    destruct (flex_edit_flex_frame_valid j fo bs vs (fun pa pl H => proj1 (shrink_premise fo Hfo pa pl H)) Hv Hview v Hj)
      as (p & n & pa & H1 & H2 & H3 & H4 & H5 & _).
    exists p, n, pa. auto.
  Qed.

  Theorem flex_edit_flex_frame_push_sized j i bs vs : wf it = true -> sized it = true -> init_ok it i = true ->
    validate t a bs = Ok tt -> view t bs = Ok (VNode 0 vs) ->
    let r := flex_edit_flex pv t a j (FPush i) bs in
    forall v, nth_error vs (N.to_nat j) = Some v ->
      exists p n pa, p + n <= blen bs /\ take p (fst r) = take p bs /\
        drop (p + n) (fst r) = drop (p + n) bs /\
        take n (drop p (fst r)) = fst (flex_op pv et pa (FPush i) (take n (drop p bs))) /\
        validate et pa (take n (drop p bs)) = Ok tt.
  Proof.
    intros Hwi Hsi Hi Hv Hview r v Hj.
    destruct (flex_edit_flex_frame_valid j (FPush i) bs vs
                (fun pa pl H => proj1 (push_sized_premise i Hwi Hsi Hi pa pl H)) Hv Hview v Hj)
      as (p & n & pa & H1 & H2 & H3 & H4 & H5 & _).
    exists p, n, pa. auto.
  Qed.
End Nested.
