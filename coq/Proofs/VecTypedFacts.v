(* VecTypedFacts.v — C11 at the typed level: FlatVec / FlatString operations keep the byte image
   valid, and what the accessors read afterwards is the list operation applied to what they read
   before.  Links validate / view of TVec and TStr to the container core of VecOpsFacts.v. *)
From Coq Require Import List NArith Bool Lia ZArith ZifyN ZifyBool ZifyNat.
From Flatty.Model Require Import Base Ty Layout Utf8 Validate View Emplace Ops.
From Flatty.Proofs Require Import ArithFacts LayoutFacts BytesFacts ValidateFacts ChainFacts ViewFacts
  AddrFacts PortableFacts OpsFacts VecOpsFacts EmplaceFacts EmplaceSpec EncFacts FlexOpsFacts.
Open Scope N_scope.

(* ---------- 0. small facts ---------- *)

Lemma res_unit_ok (r : res unit) u : r = Ok u -> r = Ok tt.
Proof. destruct u. exact (fun H => H). Qed.

Lemma read_len_inv l bs len : read_len l bs = Ok len ->
  isize l <= blen bs /\ len = of_bytes (ibe l) (take (isize l) bs) /\ len < two64.
Proof.
  unfold read_len, read_int. destruct (N.leb_spec (isize l) (blen bs)) as [H|H]; [|discriminate].
  cbn [bind]. unfold to_usize. destruct (N.ltb_spec (of_bytes (ibe l) (take (isize l) bs)) two64) as [H2|H2];
    [|discriminate].
  intros E. injection E as <-. auto.
Qed.

Lemma read_len_intro l bs : isize l <= blen bs -> of_bytes (ibe l) (take (isize l) bs) < two64 ->
  read_len l bs = Ok (of_bytes (ibe l) (take (isize l) bs)).
Proof.
  intros H H2. unfold read_len, read_int. destruct (N.leb_spec (isize l) (blen bs)); [|lia].
  cbn [bind]. apply to_usize_ok. exact H2.
Qed.

Lemma to_usize_max_inv l m : to_usize (int_max l) = Ok m -> m = int_max l /\ int_max l < two64.
Proof.
  unfold to_usize. destruct (N.ltb_spec (int_max l) two64) as [H|H]; [|discriminate].
  intros E. injection E as <-. auto.
Qed.

(* the element loop of validation: every element in range validates *)
Lemma arr_loop_ok_iff (f : N -> bytes -> res unit) s bs : forall k i,
  (i + N.of_nat k) * s <= blen bs ->
  (arr_loop f s bs k i = Ok tt <->
   forall j, i <= j -> j < i + N.of_nat k -> f j (take s (drop (j * s) bs)) = Ok tt).
Proof.
  induction k as [|k IH]; intros i Hk.
  - split; [intros _ j H1 H2; lia|reflexivity].
  - cbn [arr_loop]. unfold drop_unchecked, take_unchecked.
    assert (H1 : i * s <= blen bs) by nia.
    destruct (N.leb_spec (i * s) (blen bs)); [|lia]. cbn [bind]. rewrite blen_drop.
    assert (H2 : s <= blen bs - i * s) by nia.
    destruct (N.leb_spec s (blen bs - i * s)); [|lia]. cbn [bind].
    assert (Hk' : (i + 1 + N.of_nat k) * s <= blen bs) by nia.
    specialize (IH (i + 1) Hk'). split.
    + intros H3. apply bind_ok_inv in H3. destruct H3 as (u & Hel & Hrest).
      apply shift_ok_inv in Hel. apply res_unit_ok in Hel.
      intros j Hj1 Hj2. destruct (N.eq_dec j i) as [->|Hne]; [exact Hel|].
      apply (proj1 IH Hrest); lia.
    + intros H3. rewrite (H3 i) by lia. cbn [shift bind]. apply (proj2 IH).
      intros j Hj1 Hj2. apply H3; lia.
Qed.

Definition unres (r : res value) : value := match r with Ok v => v | _ => VInt 0 end.

(* the element loop of the accessors *)
Lemma view_arr_eval (h : bytes -> res value) s bs : forall k i,
  (i + N.of_nat k) * s <= blen bs ->
  (forall j, i <= j -> j < i + N.of_nat k -> exists v, h (take s (drop (j * s) bs)) = Ok v) ->
  view_arr (fun _ el => h el) s bs k i =
  Ok (map (fun j => unres (h (take s (drop (N.of_nat j * s) bs)))) (seq (N.to_nat i) k)).
Proof.
  induction k as [|k IH]; intros i Hk Hh; [reflexivity|].
  cbn [view_arr]. unfold drop_unchecked, take_unchecked.
  assert (H1 : i * s <= blen bs) by nia.
  destruct (N.leb_spec (i * s) (blen bs)); [|lia]. cbn [bind]. rewrite blen_drop.
  assert (H2 : s <= blen bs - i * s) by nia.
  destruct (N.leb_spec s (blen bs - i * s)); [|lia]. cbn [bind].
  destruct (Hh i) as (v & Hv); [lia|lia|]. rewrite Hv. cbn [bind].
  rewrite (IH (i + 1)); [|nia|intros j Hj1 Hj2; apply Hh; lia]. cbn [bind seq map].
  rewrite N2Nat.id, Hv. cbn [unres]. replace (N.to_nat (i + 1)) with (S (N.to_nat i)) by lia. reflexivity.
Qed.

(* ---------- 1. validation of FlatVec in terms of the container state ---------- *)

Definition elems_valid (et : ty) (a : N) (g : geom) (bs : bytes) : Prop :=
  forall j, j < c_len g bs -> validate_u et (a + g_d g + j * g_s g) (slot g j bs) = Ok tt.

Lemma geom_vec_fields et l n :
  g_len (geom_vec et l n) = l /\ g_d (geom_vec et l n) = vec_data_offset et l /\
  g_s (geom_vec et l n) = ssize et /\
  g_slots (geom_vec et l n) =
    (if ssize et =? 0 then 0 else floor_mul (n - vec_data_offset et l) (align (TVec et l)) / ssize et).
Proof. repeat split. Qed.

Lemma geom_vec_room et l n : wf (TVec et l) = true -> vec_data_offset et l <= n ->
  let g := geom_vec et l n in
  isize l <= g_d g /\ g_d g + g_slots g * g_s g <= n /\ 0 < isize l /\ vec_slots et l n = Ok (g_slots g).
Proof.
  intros Hw Hd g. pose proof (vec_consts et l Hw) as (HA & Hld & _ & _).
  apply wf_vec_inv in Hw. destruct Hw as (_ & _ & Hl). pose proof (wf_int_ialign_le _ Hl) as (_ & Hpos & _).
  pose proof (vec_slots_ok et l n Hd) as Hsl. pose proof (vec_slots_room _ _ _ _ Hsl) as Hroom.
  pose proof (floor_mul_le (n - vec_data_offset et l) _ HA) as Hfl.
  split; [exact Hld|]. split; [|split; [exact Hpos|exact Hsl]].
  change (g_d g) with (vec_data_offset et l). change (g_s g) with (ssize et).
  change (g_slots g) with (if ssize et =? 0 then 0 else floor_mul (n - vec_data_offset et l) (align (TVec et l)) / ssize et).
  lia.
Qed.

Lemma slot_as_loop g j bs : slot g j bs = take (g_s g) (drop (j * g_s g) (drop (g_d g) bs)).
Proof. unfold slot. rewrite drop_drop. reflexivity. Qed.

(* 1. validate_u (TVec et l) = the container state is well formed and the elements below the stored
   length validate.  No condition on the byte values is needed: a stored length that does not fit
   usize fails both sides. *)
Theorem vec_valid_iff_gen et l a bs : wf (TVec et l) = true -> int_max l < two64 ->
  min_size (TVec et l) <= blen bs ->
  let g := geom_vec et l (blen bs) in
  validate_u (TVec et l) a bs = Ok tt <-> cont_wf g bs /\ elems_valid et a g bs.
Proof.
  intros Hw Hmx Hmin g. change (min_size (TVec et l)) with (vec_data_offset et l) in Hmin.
  destruct (geom_vec_room et l (blen bs) Hw Hmin) as (Hld & Hroom & Hpos & Hsl). fold g in Hld, Hroom, Hsl.
  assert (Hisz : isize l <= blen bs) by (change (g_d g) with (vec_data_offset et l) in Hld; lia).
  assert (Hloop : forall len, len <= g_slots g ->
    (arr_loop (fun i el => shift (vec_data_offset et l) (validate_u et (a + vec_data_offset et l + i * ssize et) el))
       (ssize et) (drop (vec_data_offset et l) bs) (N.to_nat len) 0 = Ok tt <->
     forall j, j < len -> validate_u et (a + g_d g + j * g_s g) (slot g j bs) = Ok tt)).
  { intros len Hlen.
    assert (Hfit : (0 + N.of_nat (N.to_nat len)) * ssize et <= blen (drop (vec_data_offset et l) bs)).
    { rewrite N2Nat.id, blen_drop. change (g_d g) with (vec_data_offset et l) in Hroom.
      change (g_s g) with (ssize et) in Hroom. nia. }
    rewrite (arr_loop_ok_iff _ _ _ _ 0 Hfit). rewrite N2Nat.id. split.
    - intros H j Hj. specialize (H j ltac:(lia) ltac:(lia)).
      destruct (validate_u et _ _) as [[]| |] eqn:E in H; cbn [shift] in H; try discriminate.
      rewrite slot_as_loop. exact E.
    - intros H j _ Hj. specialize (H j ltac:(lia)). rewrite slot_as_loop in H.
      change (g_d g) with (vec_data_offset et l) in H. change (g_s g) with (ssize et) in H.
      rewrite H. reflexivity. }
  split.
  - intros Hv. destruct (vec_valid_inv _ _ _ _ Hv) as (slots & len & m & Hsl' & Hrl & Hm & Hls & Hlm & _ & Hlp).
    assert (Es : slots = g_slots g) by (rewrite Hsl in Hsl'; congruence). subst slots. clear Hsl'.
    apply read_len_inv in Hrl. destruct Hrl as (_ & Hlen & _).
    apply to_usize_max_inv in Hm. destruct Hm as [-> _].
    assert (Hc : c_len g bs = len) by (symmetry; exact Hlen).
    split.
    + split; [exact Hld|]. split; [exact Hroom|]. split; [|exact Hpos].
      rewrite Hc. unfold c_cap. rewrite umin_spec. change (g_len g) with l. lia.
    + unfold elems_valid. rewrite Hc. apply (proj1 (Hloop len Hls)). exact Hlp.
  - intros [(_ & _ & Hcap & _) Hel]. unfold c_cap in Hcap. rewrite umin_spec in Hcap.
    change (g_len g) with l in Hcap.
    apply (vec_valid_intro et l a bs (g_slots g) (c_len g bs) (int_max l)).
    + exact Hsl.
    + apply read_len_intro; [lia|]. change (of_bytes (ibe l) (take (isize l) bs)) with (c_len g bs). lia.
    + apply to_usize_ok. exact Hmx.
    + lia.
    + lia.
    + exact Hmin.
    + apply (proj2 (Hloop (c_len g bs) ltac:(lia))). exact Hel.
Qed.

Theorem vec_valid_iff et l a bs : wf (TVec et l) = true -> narrow l = true ->
  min_size (TVec et l) <= blen bs ->
  let g := geom_vec et l (blen bs) in
  validate_u (TVec et l) a bs = Ok tt <->
  cont_wf g bs /\ forall j, j < c_len g bs -> validate_u et (a + g_d g + j * g_s g) (slot g j bs) = Ok tt.
Proof. intros Hw Hn. apply vec_valid_iff_gen; [exact Hw|apply int_max_lt_two64; exact Hn]. Qed.

(* a valid image tells that its length type fits usize *)
Lemma vec_valid_max et l a bs : validate_u (TVec et l) a bs = Ok tt ->
  int_max l < two64 /\ vec_data_offset et l <= blen bs.
Proof.
  intros Hv. destruct (vec_valid_inv _ _ _ _ Hv) as (slots & len & m & _ & _ & Hm & _ & _ & Hd & _).
  apply to_usize_max_inv in Hm. tauto.
Qed.

(* ---------- 2. what the accessors read ---------- *)

(* total decoding of an element slot: its content (capacities stripped) *)
Definition edec (et : ty) (raw : bytes) : value := strip (unres (view et raw)).

Lemma abs_length g bs : length (abs g bs) = N.to_nat (c_len g bs).
Proof. unfold abs. rewrite map_length. apply seq_length. Qed.

Lemma Forall_abs (P : bytes -> Prop) g bs :
  Forall P (abs g bs) <-> forall j, j < c_len g bs -> P (slot g j bs).
Proof.
  unfold abs. rewrite Forall_forall. split.
  - intros H j Hj. apply H. apply in_map_iff. exists (N.to_nat j). rewrite N2Nat.id. split; [reflexivity|].
    apply in_seq. lia.
  - intros H x Hx. apply in_map_iff in Hx. destruct Hx as (i & <- & Hi). apply in_seq in Hi. apply H. lia.
Qed.

Theorem vec_view et l a bs : wf (TVec et l) = true -> validate_u (TVec et l) a bs = Ok tt ->
  let g := geom_vec et l (blen bs) in
  view (TVec et l) bs = Ok (VCont (c_cap g) (map (fun raw => unres (view et raw)) (abs g bs))) /\
  Forall (fun raw => exists v, view et raw = Ok v) (abs g bs) /\
  absd (edec et) g bs = map strip (map (fun raw => unres (view et raw)) (abs g bs)) /\
  read_len l bs = Ok (c_len g bs).
Proof.
  intros Hw Hv g. destruct (vec_valid_max _ _ _ _ Hv) as [Hmx Hmin].
  destruct (proj1 (vec_valid_iff_gen et l a bs Hw Hmx Hmin) Hv) as [Hwf Hel]. fold g in Hwf, Hel.
  destruct (geom_vec_room et l (blen bs) Hw Hmin) as (Hld & Hroom & Hpos & Hsl). fold g in Hld, Hroom, Hsl.
  assert (Hisz : isize l <= blen bs) by (change (g_d g) with (vec_data_offset et l) in Hld; lia).
  pose proof Hw as Hw0. apply wf_vec_inv in Hw0. destruct Hw0 as (Hwt & Hst & Hl).
  destruct Hwf as (_ & _ & Hcap & _). pose proof Hcap as Hcap0.
  unfold c_cap in Hcap. rewrite umin_spec in Hcap. change (g_len g) with l in Hcap.
  assert (Hrl : read_len l bs = Ok (c_len g bs)).
  { change (c_len g bs) with (of_bytes (ibe l) (take (isize l) bs)). apply read_len_intro; [lia|].
    change (of_bytes (ibe l) (take (isize l) bs)) with (c_len g bs). lia. }
  assert (Hex : forall j, j < c_len g bs -> exists v, view et (slot g j bs) = Ok v).
  { intros j Hj. specialize (Hel j Hj).
    assert (Hb : blen (slot g j bs) = g_s g) by (apply slot_blen; [split; assumption|lia]).
    assert (Hms : min_size et <= blen (slot g j bs)).
    { rewrite min_size_sized by exact Hst. rewrite Hb. change (g_s g) with (ssize et). lia. }
    destruct (T1_of_wf et Hwt _ _ Hms Hel) as (k & v & _ & _ & _ & _ & Hview & _).
    exists v. exact Hview. }
  split; [|split; [|split; [|exact Hrl]]].
  - apply (view_vec_eval et l bs (g_slots g) (c_len g bs) (int_max l)).
    + exact Hsl.
    + exact Hrl.
    + apply to_usize_ok. exact Hmx.
    + lia.
    + exact Hmin.
    + rewrite (view_arr_eval (view et) (ssize et) (drop (vec_data_offset et l) bs) (N.to_nat (c_len g bs)) 0).
      * f_equal. unfold abs. rewrite map_map. change (N.to_nat 0) with 0%nat. apply map_ext.
        intros i. rewrite slot_as_loop. reflexivity.
      * rewrite N2Nat.id, blen_drop. change (g_d g) with (vec_data_offset et l) in Hroom.
        change (g_s g) with (ssize et) in Hroom. nia.
      * intros j _ Hj. rewrite N2Nat.id in Hj. destruct (Hex j ltac:(lia)) as (v & Hv0).
        rewrite slot_as_loop in Hv0. exists v. exact Hv0.
  - apply Forall_abs. exact Hex.
  - unfold absd, edec. rewrite map_map. reflexivity.
Qed.

(* ---------- 2b. the decoding premise of the container theorems, for element images ---------- *)

Definition zeros (n : N) : bytes := repeat 0 (N.to_nat n).

Lemma zeros_blen n : blen (zeros n) = n.
Proof. unfold zeros, blen. rewrite repeat_length. apply N2Nat.id. Qed.

(* the content of an element image: a function of the image alone (read back from the image laid
   over a zero buffer with zero padding) *)
Definition eval (et : ty) (e : mbytes) : value := edec et (overlay (Some 0) e (zeros (ssize et))).

(* the element images: what enc_sized produces for some emplacer expression *)
Definition okm (et : ty) (e : mbytes) : Prop := exists i, enc_sized et i = Some e.

Lemma edec_enc et i e pv old : wf et = true -> sized et = true -> enc_sized et i = Some e ->
  ssize et <= blen old -> spec_value et i = Some (edec et (overlay pv e old)).
Proof.
  intros Hw Hs He Hb. destruct (enc_sized_valid et i e Hw Hs He) as [_ H].
  destruct (H pv 0 old Hb) as (_ & (v & Hview & Hspec) & _). unfold edec. rewrite Hview. exact Hspec.
Qed.

Lemma eval_spec et i e : wf et = true -> sized et = true -> enc_sized et i = Some e ->
  spec_value et i = Some (eval et e).
Proof. intros Hw Hs He. apply edec_enc; auto. rewrite zeros_blen. lia. Qed.

(* two emplacer expressions with the same image specify the same content *)
Theorem enc_same_image et i1 i2 e : wf et = true -> sized et = true ->
  enc_sized et i1 = Some e -> enc_sized et i2 = Some e -> spec_value et i1 = spec_value et i2.
Proof. intros Hw Hs H1 H2. rewrite (eval_spec et i1 e), (eval_spec et i2 e); auto. Qed.

(* the premise of cont_op_refines for the content decoding *)
Theorem dec_overlay_typed et : wf et = true -> sized et = true ->
  forall pv e old, okm et e -> mlen e = ssize et -> blen old = ssize et ->
  edec et (overlay pv e old) = eval et e.
Proof.
  intros Hw Hs pv e old [i Hi] _ Hb.
  pose proof (edec_enc et i e pv old Hw Hs Hi ltac:(lia)) as H1.
  pose proof (eval_spec et i e Hw Hs Hi) as H2. congruence.
Qed.

(* the premise of cont_op_refines for the validity "decoding": a written element validates, at
   every address, for every padding policy, whatever the slot held *)
Theorem valid_overlay_typed et a : wf et = true -> sized et = true ->
  forall pv e old, okm et e -> mlen e = ssize et -> blen old = ssize et ->
  validate_u et a (overlay pv e old) = (fun _ : mbytes => Ok tt) e.
Proof.
  intros Hw Hs pv e old [i Hi] _ Hb. destruct (enc_sized_valid et i e Hw Hs Hi) as [_ H].
  destruct (H pv a old ltac:(lia)) as (Hv & _). exact Hv.
Qed.

Lemma okm_mlen et e : wf et = true -> sized et = true -> okm et e -> mlen e = ssize et.
Proof. intros Hw Hs [i Hi]. destruct (enc_sized_valid et i e Hw Hs Hi) as [H _]. exact H. Qed.

(* validation of a sized element does not depend on which slot it sits in *)
Lemma elem_addr et a j x : wf et = true -> sized et = true ->
  validate_u et (a + j * ssize et) x = validate_u et a x.
Proof.
  intros Hw Hs. apply (proj1 validate_cong_mut et Hw). unfold cong.
  pose proof (align_pos et Hw) as Hp. destruct (mod0_mul _ _ Hp (ssize_mod_align et Hw Hs)) as (q & ->).
  replace (a + j * (q * align et)) with (a + (j * q) * align et) by lia. apply N.mod_add. lia.
Qed.

Lemma elems_valid_Forall et a g bs : wf et = true -> sized et = true -> g_s g = ssize et ->
  (elems_valid et a g bs <-> Forall (fun r => r = Ok tt) (absd (validate_u et (a + g_d g)) g bs)).
Proof.
  intros Hw Hs Hg. unfold absd. rewrite Forall_map, Forall_abs. unfold elems_valid.
  split; intros H j Hj; specialize (H j Hj); rewrite Hg in *; rewrite elem_addr in * by assumption; exact H.
Qed.

(* ---------- list facts: the list operation keeps a property of the elements ---------- *)

Lemma Forall_skipn' {A : Type} (P : A -> Prop) l : forall k, Forall P l -> Forall P (skipn k l).
Proof.
  induction l as [|x l IH]; intros k H; [rewrite skipn_nil; constructor|].
  destruct k as [|k]; [exact H|]. cbn [skipn]. inversion H; subst. apply IH. assumption.
Qed.

Lemma Forall_removelast' {A : Type} (P : A -> Prop) l : Forall P l -> Forall P (removelast l).
Proof. intros H. rewrite removelast_firstn_len. apply Forall_firstn'. exact H. Qed.

Lemma Forall_last' {A : Type} (P : A -> Prop) l : forall d, P d -> Forall P l -> P (last l d).
Proof.
  induction l as [|x l IH]; intros d Hd H; [exact Hd|]. inversion H; subst.
  destruct l as [|y l']; [assumption|]. change (P (last (y :: l') d)). apply IH; assumption.
Qed.

Lemma Forall_list_set {A : Type} (P : A -> Prop) i x l : P x -> Forall P l -> Forall P (list_set i x l).
Proof.
  intros Hx H. unfold list_set. apply Forall_app. split; [apply Forall_firstn'; exact H|].
  constructor; [exact Hx|apply Forall_skipn'; exact H].
Qed.

Lemma Forall_map_all {A X : Type} (P : X -> Prop) (val : A -> X) l : (forall e, P (val e)) -> Forall P (map val l).
Proof. intros H. apply Forall_map. apply Forall_forall. intros e _. apply H. Qed.

Lemma spec_step_Forall {X : Type} (P : X -> Prop) (val : mbytes -> X) cap xs op :
  (forall e, P (val e)) -> Forall P xs -> Forall P (fst (spec_step val cap xs op)).
Proof.
  intros Hv H. destruct op as [e| |es|es|n| |i|i|n e|i e]; unfold spec_step.
  - destruct (_ =? _); cbn [fst]; [exact H|]. apply Forall_app. split; [exact H|]. constructor; [apply Hv|constructor].
  - destruct xs as [|x xs']; cbn [fst]; [exact H|]. apply Forall_removelast'. exact H.
  - destruct (_ <? _); cbn [fst]; [exact H|]. apply Forall_app. split; [exact H|apply Forall_map_all; exact Hv].
  - cbn [fst]. apply Forall_app. split; [exact H|apply Forall_map_all; exact Hv].
  - cbn [fst]. apply Forall_firstn'. exact H.
  - constructor.
  - destruct (_ <? _); cbn [fst]; [|exact H]. apply Forall_app.
    split; [apply Forall_firstn'; exact H|apply Forall_skipn'; exact H].
  - destruct (_ <? _); cbn [fst]; [|exact H]. destruct xs as [|x0 xs']; [exact H|].
    apply Forall_removelast'. apply Forall_list_set; [|exact H]. apply Forall_last'; [|exact H].
    inversion H; assumption.
  - destruct (_ <=? _); cbn [fst]; [apply Forall_firstn'; exact H|].
    destruct (_ <? _); cbn [fst]; [exact H|]. apply Forall_app. split; [exact H|]. apply Forall_repeat'. apply Hv.
  - destruct (_ <? _); cbn [fst]; [|exact H]. apply Forall_list_set; [apply Hv|exact H].
Qed.

(* ---------- the typed front end as a container operation ---------- *)

(* clear() goes through truncate(0) *)
Definition cop_run (pv : option N) (g : geom) (c : cop) (bs : bytes) : bytes * oout :=
  match c with CClear => (cont_clear g bs, ODone) | _ => cont_op pv g c bs end.

Lemma cop_run_refines (X : Type) (dec : bytes -> X) (val : mbytes -> X) g (okm0 : mbytes -> Prop) :
  (forall pv e old, okm0 e -> mlen e = g_s g -> blen old = g_s g -> dec (overlay pv e old) = val e) ->
  forall pv c bs, cont_wf g bs -> op_wf g okm0 c ->
  let r := cop_run pv g c bs in
  cont_wf g (fst r) /\ blen (fst r) = blen bs /\
  (absd dec g (fst r), snd r) = spec_step val (c_cap g) (absd dec g bs) c.
Proof.
  intros Hdec pv c bs Hwf Hop r.
  assert (Hgen : let r0 := cont_op pv g c bs in
                 cont_wf g (fst r0) /\ blen (fst r0) = blen bs /\
                 (absd dec g (fst r0), snd r0) = spec_step val (c_cap g) (absd dec g bs) c).
  { destruct (cont_op_refines X dec val g okm0 Hdec pv c bs Hwf Hop) as (A & B & C & _). auto. }
  destruct c; try exact Hgen.
  destruct (cont_clear_refines X dec g bs Hwf) as (A & B & C & _).
  unfold r. cbn [cop_run fst snd spec_step]. rewrite B. auto.
Qed.

Definition vop_cop (et : ty) (op : vop) : option cop :=
  match op with
  | VPush i => option_map CPush (enc_sized et i)
  | VPop => Some CPop
  | VPushSlice is => option_map CPushSlice (opt_all (map (enc_sized et) is))
  | VExtend is => option_map CExtend (opt_all (map (enc_sized et) is))
  | VTruncate n => Some (CTruncate n)
  | VClear => Some CClear
  | VRemove i => Some (CRemove i)
  | VSwapRemove i => Some (CSwapRemove i)
  | VResize n i => option_map (CResize n) (enc_sized et i)
  | VSet i x => option_map (CSet i) (enc_sized et x)
  | SPushStr _ | SPushChar _ => None
  end.

Lemma vec_op_cop pv et l op bs :
  vec_op pv (TVec et l) op bs =
  match vop_cop et op with
  | Some c => cop_run pv (geom_vec et l (blen bs)) c bs
  | None => (bs, OBad)
  end.
Proof.
  destruct op as [i| |is|is|n| |i|i|n i|i x|s|c]; cbn [vec_op vop_cop]; try reflexivity.
  - destruct (enc_sized et i); reflexivity.
  - destruct (opt_all (map (enc_sized et) is)); reflexivity.
  - destruct (opt_all (map (enc_sized et) is)); reflexivity.
  - destruct (enc_sized et i); reflexivity.
  - destruct (enc_sized et x); reflexivity.
Qed.

Lemma opt_all_okm et : forall is es, opt_all (map (enc_sized et) is) = Some es ->
  Forall (okm et) es /\ (wf et = true -> sized et = true -> opt_map_all (spec_value et) is = Some (map (eval et) es)).
Proof.
  induction is as [|i r IH]; intros es H.
  - cbn [map opt_all] in H. injection H as <-. split; [constructor|reflexivity].
  - cbn [map opt_all] in H. destruct (enc_sized et i) as [e|] eqn:Ee; [|discriminate].
    destruct (opt_all (map (enc_sized et) r)) as [y|] eqn:Ey; [|discriminate]. injection H as <-.
    destruct (IH y eq_refl) as [A B]. split; [constructor; [exists i; exact Ee|exact A]|].
    intros Hw Hs. cbn [opt_map_all map]. rewrite (eval_spec et i e Hw Hs Ee), (B Hw Hs). reflexivity.
Qed.

Lemma enc_spec_none et i : wf et = true -> sized et = true -> enc_sized et i = None -> spec_value et i = None.
Proof.
  intros Hw Hs H. pose proof (proj1 init_ok_enc_mut et Hw Hs i) as E. rewrite H in E.
  destruct (spec_value et i); [discriminate|reflexivity].
Qed.

Lemma opt_all_none et : wf et = true -> sized et = true ->
  forall is, opt_all (map (enc_sized et) is) = None -> opt_map_all (spec_value et) is = None.
Proof.
  intros Hw Hs. induction is as [|i r IH]; intros H; [discriminate|].
  cbn [map opt_all] in H. cbn [opt_map_all]. destruct (enc_sized et i) as [e|] eqn:Ee.
  - destruct (opt_all (map (enc_sized et) r)); [discriminate|]. rewrite (IH eq_refl).
    destruct (spec_value et i); reflexivity.
  - rewrite (enc_spec_none et i Hw Hs Ee). reflexivity.
Qed.

Lemma vop_cop_wf et l n op c : wf et = true -> sized et = true -> vop_cop et op = Some c ->
  op_wf (geom_vec et l n) (okm et) c.
Proof.
  intros Hw Hs.
  assert (H1 : forall e, okm et e -> el_wf (geom_vec et l n) (okm et) e).
  { intros e He. split; [apply okm_mlen; assumption|exact He]. }
  assert (Hl : forall es, Forall (okm et) es -> Forall (el_wf (geom_vec et l n) (okm et)) es).
  { intros es He. induction He; constructor; auto. }
  destruct op as [i| |is|is|k| |i|i|k i|i x|s|ch]; cbn [vop_cop]; intros H; try (injection H as <-; exact I);
    try discriminate.
  - destruct (enc_sized et i) as [e|] eqn:E; [|discriminate]. injection H as <-. apply H1. exists i. exact E.
  - destruct (opt_all _) as [es|] eqn:E; [|discriminate]. injection H as <-. apply Hl.
    apply (opt_all_okm et is es E).
  - destruct (opt_all _) as [es|] eqn:E; [|discriminate]. injection H as <-. apply Hl.
    apply (opt_all_okm et is es E).
  - destruct (enc_sized et i) as [e|] eqn:E; [|discriminate]. injection H as <-. apply H1. exists i. exact E.
  - destruct (enc_sized et x) as [e|] eqn:E; [|discriminate]. injection H as <-. apply H1. exists x. exact E.
Qed.

(* ---------- 3. the list operation on contents (reference side) ---------- *)

(* FlatVec<et, _> with capacity cap holding the contents xs: the new contents and what the call
   reports; pushed elements have the content their emplacer expression specifies (spec_value);
   an expression that does not type-check for et, or a string operation, is OBad *)
Definition tspec_step (et : ty) (cap : N) (xs : list value) (op : vop) : list value * oout :=
  let len := N.of_nat (length xs) in
  match op with
  | VPush i =>
      match spec_value et i with
      | Some v => if len =? cap then (xs, ORefused) else (xs ++ [v], ODone)
      | None => (xs, OBad)
      end
  | VPop => match xs with [] => (xs, ORefused) | _ :: _ => (removelast xs, ODone) end
  | VPushSlice is =>
      match opt_map_all (spec_value et) is with
      | Some vs => if cap - len <? N.of_nat (length vs) then (xs, ORefused) else (xs ++ vs, ODone)
      | None => (xs, OBad)
      end
  | VExtend is =>
      match opt_map_all (spec_value et) is with
      | Some vs => (xs ++ firstn (N.to_nat (cap - len)) vs, ODone)
      | None => (xs, OBad)
      end
  | VTruncate n => (firstn (N.to_nat n) xs, ODone)
  | VClear => ([], ODone)
  | VRemove i =>
      if i <? len then (firstn (N.to_nat i) xs ++ skipn (N.to_nat i + 1) xs, ODone) else (xs, OPanic)
  | VSwapRemove i =>
      if i <? len
      then (match xs with
            | [] => xs
            | x0 :: _ => removelast (list_set (N.to_nat i) (last xs x0) xs)
            end, ODone)
      else (xs, OPanic)
  | VResize n i =>
      match spec_value et i with
      | Some v =>
          if n <=? len then (firstn (N.to_nat n) xs, ODone)
          else if cap <? n then (xs, OPanic)
          else (xs ++ repeat v (N.to_nat (n - len)), ODone)
      | None => (xs, OBad)
      end
  | VSet i x =>
      match spec_value et x with
      | Some v => if i <? len then (list_set (N.to_nat i) v xs, ODone) else (xs, OPanic)
      | None => (xs, OBad)
      end
  | SPushStr _ | SPushChar _ => (xs, OBad)
  end.

Lemma tspec_link et cap xs op : wf et = true -> sized et = true ->
  match vop_cop et op with
  | Some c => spec_step (eval et) cap xs c
  | None => (xs, OBad)
  end = tspec_step et cap xs op.
Proof.
  intros Hw Hs. destruct op as [i| |is|is|n| |i|i|n i|i x|s|c]; cbn [vop_cop tspec_step]; try reflexivity.
  - destruct (enc_sized et i) as [e|] eqn:E; cbn [option_map].
    + rewrite (eval_spec et i e Hw Hs E). reflexivity.
    + rewrite (enc_spec_none et i Hw Hs E). reflexivity.
  - destruct (opt_all (map (enc_sized et) is)) as [es|] eqn:E; cbn [option_map].
    + rewrite (proj2 (opt_all_okm et is es E) Hw Hs). cbn [spec_step]. rewrite map_length. reflexivity.
    + rewrite (opt_all_none et Hw Hs is E). reflexivity.
  - destruct (opt_all (map (enc_sized et) is)) as [es|] eqn:E; cbn [option_map].
    + rewrite (proj2 (opt_all_okm et is es E) Hw Hs). cbn [spec_step]. rewrite firstn_map. reflexivity.
    + rewrite (opt_all_none et Hw Hs is E). reflexivity.
  - destruct (enc_sized et i) as [e|] eqn:E; cbn [option_map].
    + rewrite (eval_spec et i e Hw Hs E). reflexivity.
    + rewrite (enc_spec_none et i Hw Hs E). reflexivity.
  - destruct (enc_sized et x) as [e|] eqn:E; cbn [option_map].
    + rewrite (eval_spec et x e Hw Hs E). reflexivity.
    + rewrite (enc_spec_none et x Hw Hs E). reflexivity.
Qed.

(* ---------- 3. one FlatVec operation at the typed level ---------- *)

Lemma check_align_min_blen t a bs bs' : blen bs' = blen bs -> check_align_min t a bs' = check_align_min t a bs.
Proof. intros H. unfold check_align_min. rewrite H. reflexivity. Qed.

(* every operation (well typed or not) on a valid image of FlatVec<et, l> mapped at address a:
   the slice keeps its length and stays valid; the accessors report the same capacity and the
   contents / outcome of the list operation; size() is the rounded end of the stored elements *)
Theorem vec_op_typed pv et l a op bs : wf (TVec et l) = true -> validate (TVec et l) a bs = Ok tt ->
  let t := TVec et l in
  let g := geom_vec et l (blen bs) in
  let r := vec_op pv t op bs in
  blen (fst r) = blen bs /\ validate t a (fst r) = Ok tt /\
  (exists vs vs', view t bs = Ok (VCont (c_cap g) vs) /\ view t (fst r) = Ok (VCont (c_cap g) vs') /\
     (map strip vs', snd r) = tspec_step et (c_cap g) (map strip vs) op /\
     N.of_nat (length vs') = c_len g (fst r) /\ c_len g (fst r) <= c_cap g /\
     absd (edec et) g bs = map strip vs /\ absd (edec et) g (fst r) = map strip vs') /\
  size_m t (fst r) = Ok (ceil_mul (g_d g + g_s g * c_len g (fst r)) (align t)).
Proof.
  intros Hw Hv t g r. subst t.
  destruct (validate_inv _ _ _ Hv) as (Hc & Hmin & Hvu).
  destruct (vec_valid_max _ _ _ _ Hvu) as [Hmx _].
  destruct (proj1 (vec_valid_iff_gen et l a bs Hw Hmx Hmin) Hvu) as [Hwf Hel]. fold g in Hwf, Hel.
  pose proof Hw as Hw0. apply wf_vec_inv in Hw0. destruct Hw0 as (Hwt & Hst & _).
  assert (Hkey : blen (fst r) = blen bs /\ cont_wf g (fst r) /\ elems_valid et a g (fst r) /\
                 (absd (edec et) g (fst r), snd r) = tspec_step et (c_cap g) (absd (edec et) g bs) op).
  { unfold r. rewrite vec_op_cop. fold g. rewrite <- (tspec_link et (c_cap g) _ op Hwt Hst).
    destruct (vop_cop et op) as [c|] eqn:Ec.
    - pose proof (vop_cop_wf et l (blen bs) op c Hwt Hst Ec) as Hop. fold g in Hop.
      destruct (cop_run_refines value (edec et) (eval et) g (okm et) (dec_overlay_typed et Hwt Hst) pv c bs Hwf Hop)
        as (A & B & C).
      destruct (cop_run_refines (res unit) (validate_u et (a + g_d g)) (fun _ => Ok tt) g (okm et)
                  (valid_overlay_typed et (a + g_d g) Hwt Hst) pv c bs Hwf Hop) as (_ & _ & C2).
      split; [exact B|]. split; [exact A|]. split; [|exact C].
      apply (elems_valid_Forall et a g _ Hwt Hst eq_refl).
      replace (absd (validate_u et (a + g_d g)) g (fst (cop_run pv g c bs)))
        with (fst (spec_step (fun _ : mbytes => @Ok unit tt) (c_cap g) (absd (validate_u et (a + g_d g)) g bs) c))
        by (rewrite <- C2; reflexivity).
      apply spec_step_Forall; [reflexivity|]. apply (elems_valid_Forall et a g bs Hwt Hst eq_refl). exact Hel.
    - cbn [fst snd]. auto. }
  destruct Hkey as (Hb & Hwf' & Hel' & Hspec).
  assert (Hvu' : validate_u (TVec et l) a (fst r) = Ok tt).
  { apply (vec_valid_iff_gen et l a (fst r) Hw Hmx); [rewrite Hb; exact Hmin|]. rewrite Hb. fold g.
    split; assumption. }
  destruct (vec_view et l a bs Hw Hvu) as (V1 & _ & V3 & _). fold g in V1, V3.
  destruct (vec_view et l a (fst r) Hw Hvu') as (W1 & _ & W3 & W4). rewrite Hb in W1, W3, W4. fold g in W1, W3, W4.
  split; [exact Hb|]. split; [|split].
  - unfold validate. rewrite (check_align_min_blen (TVec et l) a bs (fst r) Hb), Hc. exact Hvu'.
  - exists (map (fun raw => unres (view et raw)) (abs g bs)), (map (fun raw => unres (view et raw)) (abs g (fst r))).
    split; [exact V1|]. split; [exact W1|]. split; [rewrite <- V3, <- W3; exact Hspec|].
    split; [rewrite map_length, abs_length; apply N2Nat.id|]. split; [apply Hwf'|]. split; assumption.
  - cbn [size_m]. rewrite W4. reflexivity.
Qed.

(* ---------- 6. every finite history of FlatVec operations ---------- *)

Fixpoint vec_run (pv : option N) (t : ty) (ops : list vop) (bs : bytes) : bytes * list oout :=
  match ops with
  | [] => (bs, [])
  | op :: r =>
      let s := vec_op pv t op bs in
      let u := vec_run pv t r (fst s) in
      (fst u, snd s :: snd u)
  end.

Fixpoint tspec_run (et : ty) (cap : N) (ops : list vop) (xs : list value) : list value * list oout :=
  match ops with
  | [] => (xs, [])
  | op :: r =>
      let s := tspec_step et cap xs op in
      let u := tspec_run et cap r (fst s) in
      (fst u, snd s :: snd u)
  end.

(* the states passed through, the initial one included *)
Fixpoint vec_trace (pv : option N) (t : ty) (ops : list vop) (bs : bytes) : list bytes :=
  bs :: match ops with
        | [] => []
        | op :: r => vec_trace pv t r (fst (vec_op pv t op bs))
        end.

Theorem vec_history_typed pv et l a ops : wf (TVec et l) = true ->
  forall bs, validate (TVec et l) a bs = Ok tt ->
  let t := TVec et l in
  let g := geom_vec et l (blen bs) in
  let ri := vec_run pv t ops bs in
  blen (fst ri) = blen bs /\ validate t a (fst ri) = Ok tt /\
  Forall (fun b => blen b = blen bs /\ validate t a b = Ok tt) (vec_trace pv t ops bs) /\
  exists vs vs', view t bs = Ok (VCont (c_cap g) vs) /\ view t (fst ri) = Ok (VCont (c_cap g) vs') /\
    (map strip vs', snd ri) = tspec_run et (c_cap g) ops (map strip vs).
Proof.
  intros Hw. induction ops as [|op ops IH]; intros bs Hv; cbv zeta.
  - cbn [vec_run vec_trace tspec_run fst snd]. split; [reflexivity|]. split; [exact Hv|].
    split; [constructor; [split; [reflexivity|exact Hv]|constructor]|].
    destruct (vec_op_typed pv et l a VPop bs Hw Hv) as (_ & _ & (vs & _ & V & _) & _).
    exists vs, vs. auto.
  - destruct (vec_op_typed pv et l a op bs Hw Hv) as (Hb & Hv1 & (vs & vs1 & V & V1 & S1 & _) & _).
    cbn [vec_run vec_trace tspec_run fst snd].
    set (b1 := fst (vec_op pv (TVec et l) op bs)) in *.
    pose proof (IH b1 Hv1) as Hrest. cbv zeta in Hrest. rewrite Hb in Hrest.
    destruct Hrest as (R1 & R2 & R3 & (ws & ws' & W & W' & S2)).
    rewrite V1 in W. injection W as <-.
    split; [exact R1|]. split; [exact R2|]. split.
    + constructor; [split; [reflexivity|exact Hv]|exact R3].
    + exists vs, ws'. split; [exact V|]. split; [exact W'|].
      rewrite <- S1. cbn [fst snd]. rewrite <- S2. reflexivity.
Qed.

(* ---------- 4. FlatString ---------- *)

(* appending well-formed text to well-formed text *)
Lemma utf8_go_app_none : forall n a, (length a <= n)%nat -> forall b p q,
  utf8_go a p = None -> (forall q', utf8_go b q' = None) -> utf8_go (a ++ b) q = None.
Proof.
  induction n as [|n IH]; intros a Hn b p q Ha Hb.
  - destruct a as [|x a']; [apply Hb|cbn [length] in Hn; lia].
  - destruct a as [|b0 r0]; [apply Hb|]. cbn [length] in Hn.
    cbn [app]. cbn [utf8_go] in Ha |- *.
    destruct (b0 <=? 127); [apply (IH r0 ltac:(lia) b (p + 1)); assumption|].
    destruct (in_range 194 223 b0).
    { destruct r0 as [|b1 r1]; [discriminate|]. cbn [app length] in *.
      destruct (cont b1); [|discriminate]. apply (IH r1 ltac:(lia) b (p + 2)); assumption. }
    destruct (in_range 224 239 b0).
    { destruct r0 as [|b1 [|b2 r2]]; try discriminate. cbn [app length] in *. cbv zeta in Ha |- *.
      match type of Ha with (if ?c then _ else _) = None => destruct c; [|discriminate] end.
      apply (IH r2 ltac:(lia) b (p + 3)); assumption. }
    destruct (in_range 240 244 b0); [|discriminate].
    destruct r0 as [|b1 [|b2 [|b3 r3]]]; try discriminate. cbn [app length] in *. cbv zeta in Ha |- *.
    match type of Ha with (if ?c then _ else _) = None => destruct c; [|discriminate] end.
    apply (IH r3 ltac:(lia) b (p + 4)); assumption.
Qed.

Lemma utf8_go_none_pos a p q : utf8_go a p = None -> utf8_go a q = None.
Proof.
  intros H. rewrite <- (app_nil_r a). apply (utf8_go_app_none (length a) a (le_n _) [] p q H). reflexivity.
Qed.

Theorem utf8_app a b : utf8_err a = None -> utf8_err b = None -> utf8_err (a ++ b) = None.
Proof.
  unfold utf8_err. intros Ha Hb. apply (utf8_go_app_none (length a) a (le_n _) b 0 0 Ha).
  intros q'. apply (utf8_go_none_pos b 0 q' Hb).
Qed.

(* char::encode_utf8 of a Unicode scalar value is well formed *)
Ltac utf8_tests :=
  cbn [utf8_go]; unfold cont, in_range;
  repeat (match goal with
          | |- context [?x <=? ?y] => destruct (N.leb_spec x y)
          | |- context [?x =? ?y] => destruct (N.eqb_spec x y)
          end; cbn [andb]; cbv iota; try (exfalso; lia));
  try reflexivity.

Lemma utf8_1 b0 : b0 <= 127 -> utf8_go [b0] 0 = None.
Proof. intros H. utf8_tests. Qed.

Lemma utf8_2 b0 b1 : 194 <= b0 -> b0 <= 223 -> 128 <= b1 -> b1 <= 191 -> utf8_go [b0; b1] 0 = None.
Proof. intros H1 H2 H3 H4. utf8_tests. Qed.

Lemma utf8_3 b0 b1 b2 : 224 <= b0 -> b0 <= 239 -> (b0 = 224 -> 160 <= b1) -> (b0 = 237 -> b1 <= 159) ->
  128 <= b1 -> b1 <= 191 -> 128 <= b2 -> b2 <= 191 -> utf8_go [b0; b1; b2] 0 = None.
Proof. intros H1 H2 H3 H4 H5 H6 H7 H8. utf8_tests. Qed.

Lemma utf8_4 b0 b1 b2 b3 : 240 <= b0 -> b0 <= 244 -> (b0 = 240 -> 144 <= b1) -> (b0 = 244 -> b1 <= 143) ->
  128 <= b1 -> b1 <= 191 -> 128 <= b2 -> b2 <= 191 -> 128 <= b3 -> b3 <= 191 ->
  utf8_go [b0; b1; b2; b3] 0 = None.
Proof. intros H1 H2 H3 H4 H5 H6 H7 H8 H9 H10. utf8_tests. Qed.

Definition scalar (c : N) : Prop := c < 55296 \/ (57344 <= c /\ c < 1114112).

Ltac divmod x k :=
  let q := fresh "q" in let r := fresh "r" in
  pose proof (N.div_mod' x k); pose proof (N.mod_lt x k ltac:(lia));
  set (q := x / k) in *; set (r := x mod k) in *; clearbody q r.

Theorem utf8_encode_ok c : scalar c -> utf8_err (utf8_encode c) = None.
Proof.
  intros Hc. unfold scalar in Hc. unfold utf8_err, utf8_encode.
  destruct (N.ltb_spec c 128) as [H1|H1]; [apply utf8_1; lia|].
  destruct (N.ltb_spec c 2048) as [H2|H2].
  { divmod c 64. apply utf8_2; lia. }
  destruct (N.ltb_spec c 65536) as [H3|H3].
  { replace (c / 4096) with (c / 64 / 64) by (rewrite N.div_div by lia; reflexivity).
    divmod c 64. divmod q 64. apply utf8_3; lia. }
  replace (c / 262144) with (c / 64 / 64 / 64) by (rewrite !N.div_div by lia; reflexivity).
  replace (c / 4096) with (c / 64 / 64) by (rewrite N.div_div by lia; reflexivity).
  divmod c 64. divmod q 64. divmod q0 64. apply utf8_4; lia.
Qed.

(* the geometry of FlatString<l> mapped from n bytes *)
Lemma geom_str_room l n : wf_int l = true -> isize l <= n ->
  let g := geom_str l n in
  isize l <= g_d g /\ g_d g + g_slots g * g_s g <= n /\ 0 < isize l.
Proof.
  intros Hl Hn g. pose proof (wf_int_ialign_le _ Hl) as (_ & Hpos & HA).
  pose proof (floor_mul_le (n - isize l) _ HA) as Hfl.
  change (g_d g) with (isize l). change (g_s g) with 1.
  change (g_slots g) with (floor_mul (n - isize l) (ialign l)). lia.
Qed.

(* one-byte elements: the decoding is the byte *)
Definition sdec (raw : bytes) : N := hd 0 raw.
Definition sval (e : mbytes) : N := match e with Some b :: _ => b | _ => 0 end.
Definition okm_s (e : mbytes) : Prop := exists b, e = [Some b].
Definition raw_str (s : bytes) : list mbytes := map (fun b => [Some b]) s.

Lemma sdec_overlay g : g_s g = 1 -> forall pv e old,
  okm_s e -> mlen e = g_s g -> blen old = g_s g -> sdec (overlay pv e old) = sval e.
Proof.
  intros Hg pv e old [b ->] _ Hb. destruct old as [|x old]; [|reflexivity].
  rewrite Hg, blen_nil in Hb. lia.
Qed.

Lemma firstn_skipn_seq (ds : list N) : forall k s, (s + k <= length ds)%nat ->
  map (fun i => hd 0 (firstn 1 (skipn i ds))) (seq s k) = firstn k (skipn s ds).
Proof.
  induction k as [|k IH]; intros s H; [reflexivity|]. cbn [seq map].
  assert (E1 : skipn (S s) ds = skipn 1 (skipn s ds)) by (rewrite skipn_skipn'; f_equal; lia).
  destruct (skipn s ds) as [|x rest] eqn:E.
  - exfalso. apply (f_equal (@length N)) in E. rewrite skipn_length in E. cbn [length] in E. lia.
  - cbn [firstn hd]. f_equal. rewrite IH by lia. rewrite E1. reflexivity.
Qed.

Lemma str_abs l bs : let g := geom_str l (blen bs) in
  isize l + c_len g bs <= blen bs -> absd sdec g bs = take (c_len g bs) (drop (isize l) bs).
Proof.
  intros g H. unfold absd, abs. rewrite map_map. unfold take at 1.
  assert (Hl : (0 + N.to_nat (c_len g bs) <= length (drop (isize l) bs))%nat).
  { pose proof (blen_drop (isize l) bs) as Hb. unfold blen in Hb at 1. lia. }
  pose proof (firstn_skipn_seq (drop (isize l) bs) (N.to_nat (c_len g bs)) 0 Hl) as E.
  cbn [skipn] in E. rewrite <- E.
  apply map_ext. intros i. unfold sdec, slot. change (g_s g) with 1. change (g_d g) with (isize l).
  rewrite N.mul_1_r, <- drop_drop. unfold take, drop at 1. rewrite Nat2N.id. reflexivity.
Qed.

Theorem str_valid_iff_gen l a bs : wf (TStr l) = true -> int_max l < two64 ->
  min_size (TStr l) <= blen bs ->
  let g := geom_str l (blen bs) in
  validate_u (TStr l) a bs = Ok tt <->
  cont_wf g bs /\ utf8_err (take (c_len g bs) (drop (isize l) bs)) = None.
Proof.
  intros Hw Hmx Hmin g. cbn [wf] in Hw. cbn [min_size] in Hmin.
  destruct (geom_str_room l (blen bs) Hw Hmin) as (Hld & Hroom & Hpos). fold g in Hld, Hroom.
  pose proof (wf_int_ialign_le _ Hw) as (_ & _ & HA).
  pose proof (floor_mul_le (blen bs - isize l) _ HA) as Hfl.
  split.
  - intros Hv. destruct (str_valid_inv _ _ _ Hv) as (len & m & Hrl & Hm & _ & Hls & Hlm & Hlb & Hu).
    apply read_len_inv in Hrl. destruct Hrl as (_ & Hlen & _).
    apply to_usize_max_inv in Hm. destruct Hm as [-> _].
    assert (Hc : c_len g bs = len) by (symmetry; exact Hlen).
    rewrite Hc. split; [|exact Hu].
    split; [exact Hld|]. split; [exact Hroom|]. split; [|exact Hpos].
    rewrite Hc. unfold c_cap. rewrite umin_spec. change (g_len g) with l.
    change (g_slots g) with (floor_mul (blen bs - isize l) (ialign l)). lia.
  - intros [(_ & _ & Hcap & _) Hu]. unfold c_cap in Hcap. rewrite umin_spec in Hcap.
    change (g_len g) with l in Hcap. change (g_slots g) with (floor_mul (blen bs - isize l) (ialign l)) in Hcap.
    apply (str_valid_intro l a bs (c_len g bs) (int_max l)).
    + apply read_len_intro; [lia|]. change (of_bytes (ibe l) (take (isize l) bs)) with (c_len g bs). lia.
    + apply to_usize_ok. exact Hmx.
    + exact Hmin.
    + lia.
    + lia.
    + lia.
    + exact Hu.
Qed.

(* 1'. validate_u (TStr l): the container state is well formed and the first len data bytes are
   well-formed UTF-8 *)
Theorem str_valid_iff l a bs : wf (TStr l) = true -> narrow l = true -> min_size (TStr l) <= blen bs ->
  let g := geom_str l (blen bs) in
  validate_u (TStr l) a bs = Ok tt <->
  cont_wf g bs /\ utf8_err (take (c_len g bs) (drop (isize l) bs)) = None.
Proof. intros Hw Hn. apply str_valid_iff_gen; [exact Hw|apply int_max_lt_two64; exact Hn]. Qed.

Lemma str_valid_max l a bs : validate_u (TStr l) a bs = Ok tt -> int_max l < two64 /\ isize l <= blen bs.
Proof.
  intros Hv. destruct (str_valid_inv _ _ _ Hv) as (len & m & _ & Hm & Hd & _).
  apply to_usize_max_inv in Hm. tauto.
Qed.

Theorem str_view l a bs : wf (TStr l) = true -> validate_u (TStr l) a bs = Ok tt ->
  let g := geom_str l (blen bs) in
  view (TStr l) bs = Ok (VCont (c_cap g) (map VInt (absd sdec g bs))) /\
  absd sdec g bs = take (c_len g bs) (drop (isize l) bs) /\
  utf8_err (absd sdec g bs) = None /\
  read_len l bs = Ok (c_len g bs).
Proof.
  intros Hw Hv g. destruct (str_valid_max _ _ _ Hv) as [Hmx Hmin].
  destruct (proj1 (str_valid_iff_gen l a bs Hw Hmx Hmin) Hv) as [Hwf Hu]. fold g in Hwf, Hu.
  cbn [wf] in Hw. pose proof (wf_int_ialign_le _ Hw) as (_ & _ & HA).
  pose proof (floor_mul_le (blen bs - isize l) _ HA) as Hfl.
  destruct Hwf as (_ & _ & Hcap & _). unfold c_cap in Hcap. rewrite umin_spec in Hcap.
  change (g_len g) with l in Hcap. change (g_slots g) with (floor_mul (blen bs - isize l) (ialign l)) in Hcap.
  assert (Hrl : read_len l bs = Ok (c_len g bs)).
  { change (c_len g bs) with (of_bytes (ibe l) (take (isize l) bs)). apply read_len_intro; [lia|].
    change (of_bytes (ibe l) (take (isize l) bs)) with (c_len g bs). lia. }
  assert (Ha : absd sdec g bs = take (c_len g bs) (drop (isize l) bs)) by (apply str_abs; fold g; lia).
  split; [|split; [exact Ha|split; [rewrite Ha; exact Hu|exact Hrl]]].
  rewrite Ha. unfold c_cap. change (g_len g) with l. change (g_slots g) with (floor_mul (blen bs - isize l) (ialign l)).
  apply (view_str_eval l bs (c_len g bs) (int_max l)); try lia; [exact Hrl|apply to_usize_ok; exact Hmx].
Qed.

Definition sop_cop (op : vop) : option cop :=
  match op with
  | SPushStr s => Some (CPushSlice (raw_str s))
  | SPushChar c => Some (CPushSlice (raw_str (utf8_encode c)))
  | VClear => Some CClear
  | _ => None
  end.

Lemma str_op_cop pv l op bs :
  vec_op pv (TStr l) op bs =
  match sop_cop op with
  | Some c => cop_run pv (geom_str l (blen bs)) c bs
  | None => (bs, OBad)
  end.
Proof. destruct op; reflexivity. Qed.

Lemma raw_str_wf g s : g_s g = 1 -> Forall (el_wf g okm_s) (raw_str s).
Proof.
  intros Hg. unfold raw_str. apply Forall_map. apply Forall_forall. intros b _.
  split; [rewrite Hg; reflexivity|exists b; reflexivity].
Qed.

Lemma sop_cop_wf g op c : g_s g = 1 -> sop_cop op = Some c -> op_wf g okm_s c.
Proof.
  intros Hg. destruct op; cbn [sop_cop]; intros H; try discriminate; injection H as <-; cbn [op_wf];
    try exact I; apply raw_str_wf; exact Hg.
Qed.

(* the string operations on the text (reference side): push_str(&str), push(char), clear() *)
Definition sspec_step (cap : N) (xs : bytes) (op : vop) : bytes * oout :=
  let app s := if cap - blen xs <? blen s then (xs, ORefused) else (xs ++ s, ODone) in
  match op with
  | SPushStr s => app s
  | SPushChar c => app (utf8_encode c)
  | VClear => ([], ODone)
  | _ => (xs, OBad)
  end.

Lemma map_sval_raw s : map sval (raw_str s) = s.
Proof. unfold raw_str. rewrite map_map. cbn [sval]. apply map_id. Qed.

Lemma sspec_link cap xs op :
  match sop_cop op with
  | Some c => spec_step sval cap xs c
  | None => (xs, OBad)
  end = sspec_step cap xs op.
Proof.
  destruct op; cbn [sop_cop sspec_step spec_step]; try reflexivity;
    rewrite map_sval_raw; unfold raw_str; rewrite map_length; reflexivity.
Qed.

(* what may be pushed: push_str takes a &str (well-formed UTF-8), push takes a char (a Unicode
   scalar value) *)
Definition str_vop_ok (op : vop) : Prop :=
  match op with
  | SPushStr s => utf8_err s = None
  | SPushChar c => scalar c
  | _ => True
  end.

Lemma sspec_utf8 cap xs op : str_vop_ok op -> utf8_err xs = None -> utf8_err (fst (sspec_step cap xs op)) = None.
Proof.
  intros Hop Hx. destruct op; cbn [sspec_step str_vop_ok] in *; try exact Hx; try reflexivity.
  - destruct (_ <? _); cbn [fst]; [exact Hx|apply utf8_app; assumption].
  - destruct (_ <? _); cbn [fst]; [exact Hx|apply utf8_app; [exact Hx|apply utf8_encode_ok; exact Hop]].
Qed.

(* 4. one FlatString operation at the typed level *)
Theorem str_op_typed pv l a op bs : wf (TStr l) = true -> str_vop_ok op -> validate (TStr l) a bs = Ok tt ->
  let t := TStr l in
  let g := geom_str l (blen bs) in
  let r := vec_op pv t op bs in
  blen (fst r) = blen bs /\ validate t a (fst r) = Ok tt /\
  (exists s s', view t bs = Ok (VCont (c_cap g) (map VInt s)) /\ view t (fst r) = Ok (VCont (c_cap g) (map VInt s')) /\
     (s', snd r) = sspec_step (c_cap g) s op /\
     blen s' = c_len g (fst r) /\ c_len g (fst r) <= c_cap g /\ utf8_err s' = None /\
     absd sdec g bs = s /\ absd sdec g (fst r) = s') /\
  size_m t (fst r) = Ok (ceil_mul (isize l + c_len g (fst r)) (ialign l)).
Proof.
  intros Hw Hop Hv t g r. subst t.
  destruct (validate_inv _ _ _ Hv) as (Hc & Hmin & Hvu).
  destruct (str_valid_max _ _ _ Hvu) as [Hmx _].
  destruct (proj1 (str_valid_iff_gen l a bs Hw Hmx Hmin) Hvu) as [Hwf Hu]. fold g in Hwf, Hu.
  destruct (str_view l a bs Hw Hvu) as (V1 & V2 & V3 & _). fold g in V1, V2, V3.
  assert (Hkey : blen (fst r) = blen bs /\ cont_wf g (fst r) /\
                 (absd sdec g (fst r), snd r) = sspec_step (c_cap g) (absd sdec g bs) op).
  { unfold r. rewrite str_op_cop. fold g. rewrite <- (sspec_link (c_cap g) _ op).
    destruct (sop_cop op) as [c|] eqn:Ec.
    - pose proof (sop_cop_wf g op c eq_refl Ec) as Hcw.
      destruct (cop_run_refines N sdec sval g okm_s (sdec_overlay g eq_refl) pv c bs Hwf Hcw) as (A & B & C).
      auto.
    - cbn [fst snd]. auto. }
  destruct Hkey as (Hb & Hwf' & Hspec).
  assert (Hu' : utf8_err (absd sdec g (fst r)) = None).
  { replace (absd sdec g (fst r)) with (fst (sspec_step (c_cap g) (absd sdec g bs) op))
      by (rewrite <- Hspec; reflexivity).
    apply sspec_utf8; assumption. }
  assert (Habs' : absd sdec g (fst r) = take (c_len g (fst r)) (drop (isize l) (fst r))).
  { pose proof (str_abs l (fst r)) as Hs. cbv zeta in Hs. rewrite Hb in Hs. fold g in Hs. apply Hs.
    destruct Hwf' as (_ & Hroom' & Hcap' & _). rewrite Hb in Hroom'.
    pose proof (cap_bounds g) as [Hcs _].
    change (g_d g) with (isize l) in Hroom'. change (g_s g) with 1 in Hroom'. lia. }
  assert (Hvu' : validate_u (TStr l) a (fst r) = Ok tt).
  { apply (str_valid_iff_gen l a (fst r) Hw Hmx); [rewrite Hb; exact Hmin|]. rewrite Hb. fold g.
    split; [exact Hwf'|]. rewrite <- Habs'. exact Hu'. }
  destruct (str_view l a (fst r) Hw Hvu') as (W1 & _ & _ & W4). rewrite Hb in W1, W4. fold g in W1, W4.
  split; [exact Hb|]. split; [|split].
  - unfold validate. rewrite (check_align_min_blen (TStr l) a bs (fst r) Hb), Hc. exact Hvu'.
  - exists (absd sdec g bs), (absd sdec g (fst r)).
    split; [exact V1|]. split; [exact W1|]. split; [exact Hspec|].
    split; [unfold blen; apply absd_length|]. split; [apply Hwf'|]. split; [exact Hu'|]. split; reflexivity.
  - cbn [size_m]. rewrite W4. reflexivity.
Qed.

Fixpoint sspec_run (cap : N) (ops : list vop) (xs : bytes) : bytes * list oout :=
  match ops with
  | [] => (xs, [])
  | op :: r =>
      let s := sspec_step cap xs op in
      let u := sspec_run cap r (fst s) in
      (fst u, snd s :: snd u)
  end.

Lemma map_VInt_inj s s' : map VInt s = map VInt s' -> s = s'.
Proof.
  revert s'. induction s as [|x s IH]; intros [|y s'] H; try discriminate; [reflexivity|].
  cbn [map] in H. injection H as -> H. f_equal. apply IH. exact H.
Qed.

Theorem str_history_typed pv l a ops : wf (TStr l) = true -> Forall str_vop_ok ops ->
  forall bs, validate (TStr l) a bs = Ok tt ->
  let t := TStr l in
  let g := geom_str l (blen bs) in
  let ri := vec_run pv t ops bs in
  blen (fst ri) = blen bs /\ validate t a (fst ri) = Ok tt /\
  Forall (fun b => blen b = blen bs /\ validate t a b = Ok tt) (vec_trace pv t ops bs) /\
  exists s s', view t bs = Ok (VCont (c_cap g) (map VInt s)) /\ view t (fst ri) = Ok (VCont (c_cap g) (map VInt s')) /\
    (s', snd ri) = sspec_run (c_cap g) ops s.
Proof.
  intros Hw. induction ops as [|op ops IH]; intros Hops bs Hv; cbv zeta.
  - cbn [vec_run vec_trace sspec_run fst snd]. split; [reflexivity|]. split; [exact Hv|].
    split; [constructor; [split; [reflexivity|exact Hv]|constructor]|].
    destruct (str_op_typed pv l a VPop bs Hw I Hv) as (_ & _ & (s & _ & V & _) & _).
    exists s, s. auto.
  - inversion Hops as [|o r Hop Hops']; subst o r.
    destruct (str_op_typed pv l a op bs Hw Hop Hv) as (Hb & Hv1 & (s & s1 & V & V1 & S1 & _) & _).
    cbn [vec_run vec_trace sspec_run fst snd].
    set (b1 := fst (vec_op pv (TStr l) op bs)) in *.
    pose proof (IH Hops' b1 Hv1) as Hrest. cbv zeta in Hrest. rewrite Hb in Hrest.
    destruct Hrest as (R1 & R2 & R3 & (w & w' & W & W' & S2)).
    rewrite V1 in W. injection W as W. apply map_VInt_inj in W. subst w.
    split; [exact R1|]. split; [exact R2|]. split.
    + constructor; [split; [reflexivity|exact Hv]|exact R3].
    + exists s, w'. split; [exact V|]. split; [exact W'|].
      rewrite <- S1. cbn [fst snd]. rewrite <- S2. reflexivity.
Qed.

(* ---------- 5. the item-level premise of the FlexVec edit theorem ---------- *)

Definition item_vop_ok (it : ty) (vo : vop) : Prop :=
  match it with TStr _ => str_vop_ok vo | _ => True end.

(* a FlatVec / FlatString operation maps an item payload valid at its address to a valid payload
   of the same length (for item types other than FlatVec / FlatString the operation is not
   generated and the model returns the payload) *)
Theorem vec_op_item_edit pv it vo : wf it = true -> item_vop_ok it vo ->
  forall pa pl, validate it pa pl = Ok tt ->
  blen (fst (vec_op pv it vo pl)) = blen pl /\ validate it pa (fst (vec_op pv it vo pl)) = Ok tt.
Proof.
  intros Hw Hok pa pl Hv.
  destruct it as [|i| |tag n d|t0 n|t0 l0|l0|t0 l0|s fs|s tag d vs]; try (cbn [vec_op fst]; split; [reflexivity|exact Hv]).
  - destruct (vec_op_typed pv t0 l0 pa vo pl Hw Hv) as (A & B & _). auto.
  - destruct (str_op_typed pv l0 pa vo pl Hw Hok Hv) as (A & B & _). auto.
Qed.

(* c12_edit_vec with its premise discharged *)
Theorem flex_edit_vec_discharged pv et l a : wf (TFlex et l) = true -> narrow l = true ->
  forall j vo bs vs, item_vop_ok et vo ->
  validate (TFlex et l) a bs = Ok tt -> view (TFlex et l) bs = Ok (VNode 0 vs) ->
  let r := flex_op pv (TFlex et l) a (FEditVec j vo) bs in
  (nth_error vs (N.to_nat j) = None -> r = (bs, OPanic)) /\
  (forall v, nth_error vs (N.to_nat j) = Some v ->
     exists pa pl v', validate et pa pl = Ok tt /\ view et pl = Ok v /\
       snd r = snd (vec_op pv et vo pl) /\ view et (fst (vec_op pv et vo pl)) = Ok v' /\
       blen (fst r) = blen bs /\ validate (TFlex et l) a (fst r) = Ok tt /\
       view (TFlex et l) (fst r) = Ok (VNode 0 (FlexOpsFacts.splice (N.to_nat j) v' vs))).
Proof.
  intros Hw Hn j vo bs vs Hok. apply (flex_edit_vec_ok pv et l a Hw Hn j vo bs vs).
  apply vec_op_item_edit; [|exact Hok]. apply wf_flex_inv in Hw. tauto.
Qed.

(* the container theorem of VecOpsFacts.v instantiated with the content decoding of the element
   type: on the geometry of FlatVec<et, l>, for element images produced by enc_sized *)
Corollary vec_cont_op_refines pv et l n c bs : wf et = true -> sized et = true ->
  let g := geom_vec et l n in
  cont_wf g bs -> op_wf g (okm et) c ->
  let r := cont_op pv g c bs in
  cont_wf g (fst r) /\ blen (fst r) = blen bs /\
  (absd (edec et) g (fst r), snd r) = spec_step (eval et) (c_cap g) (absd (edec et) g bs) c /\
  N.of_nat (length (absd (edec et) g (fst r))) = c_len g (fst r) /\
  c_len g (fst r) <= int_max (g_len g).
Proof.
  intros Hw Hs g.
  exact (cont_op_refines value (edec et) (eval et) g (okm et) (dec_overlay_typed et Hw Hs) pv c bs).
Qed.
