(* The converse of text_of_valid: whatever the library's str validation (utf8_err, Model/Utf8.v =
   core::str::from_utf8) accepts is the text of a sequence of Unicode scalar values, and the reference
   decoder of Utf8DecFacts reads that sequence.  Together: utf8_err bs = None IFF bs = text_of cs for
   scalars cs — no overlong forms, no surrogates, nothing above 0x10FFFF, no truncated sequence. *)
From Coq Require Import List NArith Bool Lia ZArith ZifyN ZifyBool ZifyNat.
From Flatty.Model Require Import Base Ty Layout Utf8 Validate View Emplace Ops.
From Flatty.Proofs Require Import EmplaceSpec VecOpsFacts VecTypedFacts Utf8DecFacts.
Import ListNotations.
Open Scope N_scope.

Ltac dm := Z.div_mod_to_equations.
Ltac dlia := zify; dm; lia.

Lemma enc2 x y : 2 <= x -> x < 32 -> y < 64 ->
  utf8_encode (x * 64 + y) = [192 + x; 128 + y].
Proof.
  intros Hx Hx' Hy. unfold utf8_encode.
  destruct (N.ltb_spec (x * 64 + y) 128); [lia|].
  destruct (N.ltb_spec (x * 64 + y) 2048); [|lia].
  assert ((x * 64 + y) / 64 = x) as -> by (symmetry; apply (N.div_unique _ 64 x y); lia).
  assert ((x * 64 + y) mod 64 = y) as -> by (symmetry; apply (N.mod_unique _ 64 x y); lia).
  reflexivity.
Qed.

Lemma enc3 x y z : x < 16 -> y < 64 -> z < 64 -> 32 <= x * 64 + y ->
  utf8_encode (x * 4096 + y * 64 + z) = [224 + x; 128 + y; 128 + z].
Proof.
  intros Hx Hy Hz Hlo. unfold utf8_encode. set (c := x * 4096 + y * 64 + z).
  destruct (N.ltb_spec c 128); [lia|]. destruct (N.ltb_spec c 2048); [lia|].
  destruct (N.ltb_spec c 65536); [|lia].
  assert (c / 4096 = x) as -> by (symmetry; apply (N.div_unique _ 4096 x (y * 64 + z)); lia).
  assert (c / 64 = x * 64 + y) as -> by (symmetry; apply (N.div_unique _ 64 _ z); lia).
  assert ((x * 64 + y) mod 64 = y) as -> by (symmetry; apply (N.mod_unique _ 64 x y); lia).
  assert (c mod 64 = z) as -> by (symmetry; apply (N.mod_unique _ 64 (x * 64 + y) z); lia).
  reflexivity.
Qed.

Lemma enc4 w x y z : w < 8 -> x < 64 -> y < 64 -> z < 64 -> 16 <= w * 64 + x ->
  utf8_encode (w * 262144 + x * 4096 + y * 64 + z) = [240 + w; 128 + x; 128 + y; 128 + z].
Proof.
  intros Hw Hx Hy Hz Hlo. unfold utf8_encode. set (c := w * 262144 + x * 4096 + y * 64 + z).
  destruct (N.ltb_spec c 128); [lia|]. destruct (N.ltb_spec c 2048); [lia|].
  destruct (N.ltb_spec c 65536); [lia|].
  assert (c / 262144 = w) as -> by (symmetry; apply (N.div_unique _ 262144 w (x * 4096 + y * 64 + z)); lia).
  assert (c / 4096 = w * 64 + x) as -> by (symmetry; apply (N.div_unique _ 4096 _ (y * 64 + z)); lia).
  assert ((w * 64 + x) mod 64 = x) as -> by (symmetry; apply (N.mod_unique _ 64 w x); lia).
  assert (c / 64 = (w * 64 + x) * 64 + y) as -> by (symmetry; apply (N.div_unique _ 64 _ z); lia).
  assert (((w * 64 + x) * 64 + y) mod 64 = y) as -> by (symmetry; apply (N.mod_unique _ 64 (w * 64 + x) y); lia).
  assert (c mod 64 = z) as -> by (symmetry; apply (N.mod_unique _ 64 ((w * 64 + x) * 64 + y) z); lia).
  reflexivity.
Qed.

Definition accepted (bs : bytes) : Prop :=
  exists cs, utf8_dec bs = Some cs /\ Forall scalar cs /\ text_of cs = bs.

Lemma accepted_cons c enc r : accepted r -> scalar c -> utf8_encode c = enc ->
  utf8_dec (enc ++ r) = option_map (cons c) (utf8_dec r) -> accepted (enc ++ r).
Proof.
  intros (cs & Hd & Hs & Ht) Hc He Hdec. exists (c :: cs). split; [|split].
  - rewrite Hdec, Hd. reflexivity.
  - constructor; assumption.
  - unfold text_of in *. cbn [flat_map]. rewrite He, Ht. reflexivity.
Qed.

Ltac ltbF := match goal with |- context [?a <? ?b] => destruct (N.ltb_spec a b); [lia|] end.
Ltac ltbT := match goal with |- context [?a <? ?b] => destruct (N.ltb_spec a b); [|lia] end.
Ltac splitb H := unfold cont, in_range in H;
  repeat match type of H with
  | context [?x <=? ?y] => destruct (N.leb_spec x y)
  | context [?x =? ?y] => destruct (N.eqb_spec x y)
  end; cbn [andb] in H; cbv iota in H; try discriminate H.

Lemma utf8_go_accepted n : forall bs pos, (length bs <= n)%nat -> utf8_go bs pos = None -> accepted bs.
Proof.
  induction n as [|n IH]; intros bs pos Hn H.
  { destruct bs; [|cbn in Hn; lia]. exists []. repeat split; constructor. }
  destruct bs as [|b0 r0]; [exists []; repeat split; constructor|].
  cbn [utf8_go] in H. cbn [length] in Hn.
  destruct (N.leb_spec b0 127) as [H0|H0].
  { apply (accepted_cons b0 [b0] r0); [apply (IH r0 _ ltac:(lia) H)|left; lia| |].
    - unfold utf8_encode. ltbT. reflexivity.
    - cbn [app utf8_dec]. ltbT. reflexivity. }
  destruct (in_range 194 223 b0) eqn:E2.
  { destruct r0 as [|b1 r1]; [discriminate|]. destruct (cont b1) eqn:C1; [|discriminate].
    splitb E2. splitb C1. cbn [length] in Hn.
    apply (accepted_cons ((b0 - 192) * 64 + (b1 - 128)) [b0; b1] r1);
      [apply (IH r1 _ ltac:(lia) H)|left; lia| |].
    - rewrite enc2 by lia. f_equal; [lia|f_equal; lia].
    - cbn [app utf8_dec]. ltbF. ltbT. reflexivity. }
  destruct (in_range 224 239 b0) eqn:E3.
  { destruct r0 as [|b1 [|b2 r2]]; try discriminate.
    match type of H with (if ?c then _ else _) = _ => destruct c eqn:C end; [|discriminate].
    apply andb_prop in C. destruct C as [C1 C2]. splitb E3. splitb C2. cbn [length] in Hn.
    assert (Hb1 : 128 <= b1 <= 191 /\ (b0 = 224 -> 160 <= b1) /\ (b0 = 237 -> b1 <= 159)).
    { splitb C1; lia. }
    apply (accepted_cons ((b0 - 224) * 4096 + (b1 - 128) * 64 + (b2 - 128)) [b0; b1; b2] r2);
      [apply (IH r2 _ ltac:(lia) H)| | |].
    - unfold scalar. lia.
    - rewrite enc3 by lia. f_equal; [lia|f_equal; [lia|f_equal; lia]].
    - cbn [app utf8_dec]. ltbF. ltbF. ltbT. reflexivity. }
  destruct (in_range 240 244 b0) eqn:E4; [|discriminate].
  destruct r0 as [|b1 [|b2 [|b3 r3]]]; try discriminate.
  match type of H with (if ?c then _ else _) = _ => destruct c eqn:C end; [|discriminate].
  apply andb_prop in C. destruct C as [C C3]. apply andb_prop in C. destruct C as [C1 C2].
  splitb E4. splitb C2. splitb C3. cbn [length] in Hn.
  assert (Hb1 : 128 <= b1 <= 191 /\ (b0 = 240 -> 144 <= b1) /\ (b0 = 244 -> b1 <= 143)).
  { splitb C1; lia. }
  apply (accepted_cons ((b0 - 240) * 262144 + (b1 - 128) * 4096 + (b2 - 128) * 64 + (b3 - 128))
                       [b0; b1; b2; b3] r3);
    [apply (IH r3 _ ltac:(lia) H)| | |].
  - unfold scalar. lia.
  - rewrite enc4 by lia. f_equal; [lia|f_equal; [lia|f_equal; [lia|f_equal; lia]]].
  - cbn [app utf8_dec]. ltbF. ltbF. ltbF. reflexivity.
Qed.

Theorem utf8_accepted_is_text bs : utf8_err bs = None ->
  exists cs, utf8_dec bs = Some cs /\ Forall scalar cs /\ text_of cs = bs.
Proof. intros H. exact (utf8_go_accepted (length bs) bs 0 (le_n _) H). Qed.

Theorem utf8_accept_iff bs : utf8_err bs = None <-> exists cs, Forall scalar cs /\ text_of cs = bs.
Proof.
  split.
  - intros H. destruct (utf8_accepted_is_text bs H) as (cs & _ & Hs & Ht). exists cs. split; assumption.
  - intros (cs & Hs & Ht). rewrite <- Ht. apply text_of_valid. exact Hs.
Qed.

(* FlatString validation in terms of characters: the stored text is the encoding of a sequence of
   Unicode scalar values, and nothing else is accepted *)
Theorem str_valid_chars_iff l a bs : wf (TStr l) = true -> narrow l = true ->
  min_size (TStr l) <= blen bs ->
  let g := geom_str l (blen bs) in
  validate_u (TStr l) a bs = Ok tt <->
  cont_wf g bs /\ exists cs, Forall scalar cs /\ text_of cs = take (c_len g bs) (drop (isize l) bs).
Proof.
  intros Hw Hn Hm g. pose proof (str_valid_iff l a bs Hw Hn Hm) as H. cbv zeta in H. fold g in H.
  rewrite H. rewrite utf8_accept_iff. reflexivity.
Qed.
