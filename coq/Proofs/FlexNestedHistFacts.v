(* FlexNestedHistFacts.v — histories on a FlexVec of FlexVecs: operations of the outer vector
   (Model/Ops.v flex_op) interleaved with in-place edits of inner vectors (flex_edit_flex).
   Every step keeps the length of the slice and its validity, no step reports OBad; a history of
   inner edits only never changes the number of items of the outer vector.
   Built from the single-step theorems of Proofs/FlexOpsFacts.v, Proofs/FlexAllFacts.v and
   Proofs/FlexNestedFacts.v.  Pinned in Props/C12_nested_hist.v. *)
From Coq Require Import List NArith Bool Lia ZArith ZifyN ZifyBool ZifyNat.
From Flatty.Model Require Import Base Ty Layout Validate View Emplace Ops.
From Flatty.Proofs Require Import ArithFacts LayoutFacts BytesFacts ValidateFacts ChainFacts ViewFacts
  EmplaceSpec FlexOpsFacts EmplaceUnsizedFacts AssignValidFacts AssignSpineFacts FlexAllFacts FlexNestedFacts.
Import ListNotations.
Open Scope N_scope.

(* ---------- the specification-level definitions ---------- *)

(* one step of a history on FlexVec<FlexVec<it, il>, l>: an operation of the outer vector, or of
   inner vector j *)
Inductive fop2 := Outer (o : fop) | Inner (j : N) (o : fop).

Definition flex2_step (pv : option N) (it : ty) (il l : intty) (a : N) (o : fop2) (bs : bytes) : bytes * oout :=
  match o with
  | Outer fo => flex_op pv (TFlex (TFlex it il) l) a fo bs
  | Inner j fo => flex_edit_flex pv (TFlex (TFlex it il) l) a j fo bs
  end.

(* the run: the slice after the whole history and the list of reported outcomes *)
Fixpoint flex2_run (pv : option N) (it : ty) (il l : intty) (a : N) (ops : list fop2) (bs : bytes)
  : bytes * list oout :=
  match ops with
  | [] => (bs, [])
  | o :: r =>
      let s := flex2_step pv it il l a o bs in
      let s' := flex2_run pv it il l a r (fst s) in (fst s', snd s :: snd s')
  end.

(* the operations of an inner vector that are covered: push of a well-typed expression (the
   theorems ask the inner item type to be sized), pop, truncate, clear *)
Definition inner_ok (it : ty) (fo : fop) : Prop :=
  match fo with
  | FPush i => init_ok it i = true
  | FPop | FTruncate _ | FClear => True
  | _ => False
  end.

(* the steps that are covered: outer push of a well-typed expression with UTF-8 literals / pop /
   truncate / clear (simple_op_u at the item type TFlex it il), inner push of a well-typed
   expression / pop / truncate / clear *)
Definition step_ok (it : ty) (il : intty) (o : fop2) : Prop :=
  match o with
  | Outer fo => simple_op_u (TFlex it il) fo
  | Inner _ fo => inner_ok it fo
  end.

Definition is_inner (o : fop2) : Prop := match o with Inner _ _ => True | Outer _ => False end.

(* ---------- lists ---------- *)

Lemma splice_length {A} j (x : A) xs : (j < length xs)%nat -> length (splice j x xs) = length xs.
Proof.
  intros Hj. unfold splice. rewrite app_length, firstn_length. cbn [length]. rewrite skipn_length. lia.
Qed.

(* ---------- the inner operation on a valid payload ---------- *)

Lemma inner_step pv it il pa fo pl :
  wf (TFlex it il) = true -> narrow il = true -> wf it = true -> sized it = true -> inner_ok it fo ->
  validate (TFlex it il) pa pl = Ok tt ->
  blen (fst (flex_op pv (TFlex it il) pa fo pl)) = blen pl /\
  validate (TFlex it il) pa (fst (flex_op pv (TFlex it il) pa fo pl)) = Ok tt /\
  snd (flex_op pv (TFlex it il) pa fo pl) <> OBad.
Proof.
  intros Hwe Hnari Hwi Hsi Hfo Hvpl.
  destruct (valid_size_view (TFlex it il) pa pl Hwe Hvpl) as (k0 & v0 & Hk0 & _ & _ & _ & Hview0 & _).
  destruct (flex_view_node it il pa pl v0 Hwe Hnari Hvpl Hview0) as (ws & ->).
  destruct fo as [i| |n| |j vo|j x]; cbn [inner_ok] in Hfo; try contradiction.
  - destruct (flex_push_ok pv it il pa Hwe Hnari (sized_item_ok pv it Hwi Hsi)
                (sized_item_len pv it Hwi Hsi) (sized_item_nocrash pv it Hwi Hsi) i pl ws k0 Hfo Hvpl Hview0 Hk0)
      as (Hb & Hv' & _).
    split; [exact Hb|]. split; [exact Hv'|].
    destruct (flex_push_outcomes pv it il pa Hwe Hnari (sized_item_ok pv it Hwi Hsi)
                (sized_item_len pv it Hwi Hsi) (sized_item_nocrash pv it Hwi Hsi) i pl Hfo Hvpl) as [Ho|(kd & Ho)];
      rewrite Ho; discriminate.
  - destruct (flex_pop_ok pv it il pa Hwe Hnari pl ws Hvpl Hview0) as (He & Hne & Hb & Hv' & _).
    split; [exact Hb|]. split; [exact Hv'|].
    destruct ws as [|w ws'].
    + destruct (He eq_refl) as [Ho _]. rewrite Ho. discriminate.
    + rewrite (Hne ltac:(discriminate)). discriminate.
  - destruct (flex_truncate_ok pv it il pa Hwe Hnari n pl ws Hvpl Hview0) as (Ho & Hb & Hv' & _).
    split; [exact Hb|]. split; [exact Hv'|]. rewrite Ho. discriminate.
  - destruct (flex_clear_ok pv it il pa Hwe Hnari pl Hvpl) as (Ho & Hb & Hv' & _).
    split; [exact Hb|]. split; [exact Hv'|]. rewrite Ho. discriminate.
Qed.

(* ---------- one step ---------- *)

Section Hist.
  Variables (pv : option N) (it : ty) (il l : intty) (a : N).
  Local Notation et := (TFlex it il).
  Local Notation t := (TFlex (TFlex it il) l).
  Hypothesis Hw : wf t = true.
  Hypothesis Hnar : narrow l = true.
  Hypothesis Hnari : narrow il = true.
  Hypothesis Hwi : wf it = true.
  Hypothesis Hsi : sized it = true.

  Let Hwe : wf et = true := proj1 (wf_flex_inv et l Hw).

  (* the view of a valid image is a node of the items *)
  Lemma valid_view_node bs : validate t a bs = Ok tt -> exists vs, view t bs = Ok (VNode 0 vs).
  Proof.
    intros Hv. destruct (valid_unpack et l a Hw bs Hv) as (items & e & vs & Hst).
    destruct (fstate_facts et l a Hw Hnar _ _ _ _ Hst) as (_ & Hview & _). exists vs. exact Hview.
  Qed.

  (* an inner step: length, validity, the outcome, the number of items *)
  Lemma inner_step_ok j fo bs vs : inner_ok it fo ->
    validate t a bs = Ok tt -> view t bs = Ok (VNode 0 vs) ->
    let r := flex_edit_flex pv t a j fo bs in
    blen (fst r) = blen bs /\ validate t a (fst r) = Ok tt /\ snd r <> OBad /\
    exists vs', view t (fst r) = Ok (VNode 0 vs') /\ length vs' = length vs.
  Proof.
    intros Hfo Hv Hview r.
    assert (Hf : forall pa pl, validate et pa pl = Ok tt ->
              blen (fst (flex_op pv et pa fo pl)) = blen pl /\
              validate et pa (fst (flex_op pv et pa fo pl)) = Ok tt).
    { intros pa pl Hvpl. destruct (inner_step pv it il pa fo pl Hwe Hnari Hwi Hsi Hfo Hvpl) as (H1 & H2 & _). auto. }
    destruct (flex_edit_flex_ok pv it il l a Hw Hnar j fo bs vs Hf Hv Hview) as [Hnone Hsome].
    fold r in Hnone, Hsome.
    destruct (nth_error vs (N.to_nat j)) as [v|] eqn:Hj.
    - destruct (Hsome v eq_refl) as (pa & pl & v' & Hvpl & _ & Hout & _ & Hb & Hv' & Hview').
      destruct (inner_step pv it il pa fo pl Hwe Hnari Hwi Hsi Hfo Hvpl) as (_ & _ & Hnb).
      split; [exact Hb|]. split; [exact Hv'|]. split; [rewrite Hout; exact Hnb|].
      exists (splice (N.to_nat j) v' vs). split; [exact Hview'|].
      apply splice_length. apply nth_error_Some. rewrite Hj. discriminate.
    - rewrite (Hnone eq_refl). cbn [fst snd]. split; [reflexivity|]. split; [exact Hv|].
      split; [discriminate|]. exists vs. auto.
  Qed.

  (* a history of inner steps only: the number of items of the outer vector never changes (and the
     slice keeps its length, stays valid, no outcome is OBad) *)
  Lemma inner_history ops : forall bs vs, Forall (step_ok it il) ops -> Forall is_inner ops ->
    validate t a bs = Ok tt -> view t bs = Ok (VNode 0 vs) ->
    let r := flex2_run pv it il l a ops bs in
    blen (fst r) = blen bs /\ validate t a (fst r) = Ok tt /\
    exists vs', view t (fst r) = Ok (VNode 0 vs') /\ length vs' = length vs.
  Proof.
    induction ops as [|o ops IH]; intros bs vs Hops Hin Hv Hview.
    - cbn [flex2_run fst snd]. split; [reflexivity|]. split; [exact Hv|]. exists vs. auto.
    - inversion Hops as [|x r' Hop Hops']; subst x r'. inversion Hin as [|x r' Hi Hin']; subst x r'.
      destruct o as [fo|j fo]; cbn [is_inner] in Hi; [contradiction|]. cbn [step_ok] in Hop.
      destruct (inner_step_ok j fo bs vs Hop Hv Hview) as (Hb & Hv' & _ & vs1 & Hview1 & Hlen1).
      destruct (IH _ vs1 Hops' Hin' Hv' Hview1) as (Hb2 & Hv2 & vs2 & Hview2 & Hlen2).
      cbn [flex2_run flex2_step]. cbv zeta. cbn [fst snd].
      split; [lia|]. split; [exact Hv2|]. exists vs2. split; [exact Hview2|]. lia.
  Qed.

  Theorem history_inner_only_outer_len ops bs vs : Forall (step_ok it il) ops -> Forall is_inner ops ->
    validate t a bs = Ok tt -> view t bs = Ok (VNode 0 vs) ->
    exists vs', view t (fst (flex2_run pv it il l a ops bs)) = Ok (VNode 0 vs') /\ length vs' = length vs.
  Proof.
    intros Hops Hin Hv Hview.
    destruct (inner_history ops bs vs Hops Hin Hv Hview) as (_ & _ & H). exact H.
  Qed.

  (* ---------- every step, every history ---------- *)

  Hypothesis Hnit : narrow_ty it = true.

  Lemma outer_step_ok fo bs : simple_op_u et fo -> validate t a bs = Ok tt ->
    let r := flex_op pv t a fo bs in
    blen (fst r) = blen bs /\ validate t a (fst r) = Ok tt /\ snd r <> OBad.
  Proof.
    intros Hfo Hv r. destruct (valid_view_node bs Hv) as (vs & Hview).
    assert (Hne : narrow_ty et = true) by (cbn [narrow_ty]; rewrite Hnit, Hnari; reflexivity).
    destruct (flex_op_step_g pv et l a Hw Hnar utf8_ok (all_item_ok pv et Hwe Hne) (all_item_len pv et Hwe Hne)
                (all_item_nocrash pv et Hwe Hne) fo bs vs Hfo Hv Hview) as (Hb & Hv' & vs' & _ & _ & Hout).
    fold r in Hb, Hv', Hout. split; [exact Hb|]. split; [exact Hv'|].
    destruct Hfo as [Hs _].
    destruct fo as [i| |n| |j vo|j x]; cbn [simple_op] in Hs; try contradiction; cbn [flex_spec_out] in Hout.
    - destruct Hout as [Ho|(kd & Ho)]; rewrite Ho; discriminate.
    - rewrite Hout. destruct (map strip vs); discriminate.
    - rewrite Hout. discriminate.
    - rewrite Hout. discriminate.
  Qed.

  Lemma step_valid o bs : step_ok it il o -> validate t a bs = Ok tt ->
    let r := flex2_step pv it il l a o bs in
    blen (fst r) = blen bs /\ validate t a (fst r) = Ok tt /\ snd r <> OBad.
  Proof.
    intros Hop Hv. destruct o as [fo|j fo]; cbn [step_ok] in Hop; cbn [flex2_step].
    - exact (outer_step_ok fo bs Hop Hv).
    - destruct (valid_view_node bs Hv) as (vs & Hview).
      destruct (inner_step_ok j fo bs vs Hop Hv Hview) as (H1 & H2 & H3 & _). auto.
  Qed.

  Theorem history_valid ops : forall bs, Forall (step_ok it il) ops -> validate t a bs = Ok tt ->
    let r := flex2_run pv it il l a ops bs in
    blen (fst r) = blen bs /\ validate t a (fst r) = Ok tt /\
    length (snd r) = length ops /\ Forall (fun o => o <> OBad) (snd r).
  Proof.
    induction ops as [|o ops IH]; intros bs Hops Hv.
    - cbn [flex2_run fst snd length]. repeat split; auto.
    - inversion Hops as [|x r' Hop Hops']; subst x r'.
      destruct (step_valid o bs Hop Hv) as (Hb & Hv' & Hnb).
      destruct (IH _ Hops' Hv') as (Hb2 & Hv2 & Hlen2 & Hall2).
      cbn [flex2_run]. cbv zeta. cbn [fst snd length].
      split; [lia|]. split; [exact Hv2|]. split; [rewrite Hlen2; reflexivity|].
      constructor; [exact Hnb|exact Hall2].
  Qed.
End Hist.

Lemma narrow_flex2_inv it il l : narrow_ty (TFlex (TFlex it il) l) = true ->
  narrow_ty it = true /\ narrow il = true /\ narrow l = true.
Proof.
  cbn [narrow_ty]. intros H. apply andb_true_iff in H. destruct H as [H H3].
  apply andb_true_iff in H. destruct H as [H1 H2]. auto.
Qed.

(* the statements in the shape pinned in Props/C12_nested_hist.v *)
Theorem nested_history_valid pv it il l a :
  wf (TFlex (TFlex it il) l) = true -> narrow_ty (TFlex (TFlex it il) l) = true ->
  wf it = true -> sized it = true ->
  forall ops bs, Forall (step_ok it il) ops -> validate (TFlex (TFlex it il) l) a bs = Ok tt ->
  let r := flex2_run pv it il l a ops bs in
  blen (fst r) = blen bs /\ validate (TFlex (TFlex it il) l) a (fst r) = Ok tt /\
  length (snd r) = length ops /\ Forall (fun o => o <> OBad) (snd r).
Proof.
  intros Hw Hn Hwi Hsi ops bs Hops Hv. destruct (narrow_flex2_inv it il l Hn) as (H1 & H2 & H3).
  exact (history_valid pv it il l a Hw H3 H2 Hwi Hsi H1 ops bs Hops Hv).
Qed.

Theorem nested_history_inner_only_outer_len pv it il l a :
  wf (TFlex (TFlex it il) l) = true -> narrow l = true -> narrow il = true ->
  wf it = true -> sized it = true ->
  forall ops bs vs, Forall (step_ok it il) ops -> Forall is_inner ops ->
  validate (TFlex (TFlex it il) l) a bs = Ok tt -> view (TFlex (TFlex it il) l) bs = Ok (VNode 0 vs) ->
  exists vs', view (TFlex (TFlex it il) l) (fst (flex2_run pv it il l a ops bs)) = Ok (VNode 0 vs') /\
    length vs' = length vs.
Proof.
  intros Hw Hn Hni Hwi Hsi ops bs vs. exact (history_inner_only_outer_len pv it il l a Hw Hn Hni Hwi Hsi ops bs vs).
Qed.
