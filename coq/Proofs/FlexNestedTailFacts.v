(* FlexNestedTailFacts.v — a FlexVec of FlexVecs nested as the unsized tail of a struct / of an enum
   variant; one of its inner vectors edited in place through the mapped value
   (x.tail.iter_mut().nth(j) then a FlexVec operation): Model/Ops.v nested_flex_edit_flex.
   The analogue of nested_flex_op_ok (Proofs/NestedOpsFacts.v) with flex_edit_flex
   (Proofs/FlexNestedFacts.v) in the place of flex_op.  Pinned in Props/C14_flexitem_nested.v. *)
From Coq Require Import List NArith Bool Lia ZArith ZifyN ZifyBool ZifyNat.
From Flatty.Model Require Import Base Ty Layout Validate View Emplace Ops.
From Flatty.Proofs Require Import ArithFacts LayoutFacts BytesFacts ValidateFacts ChainFacts ViewFacts
  EmplaceSpec FlexOpsFacts FlexNestedFacts NestedOpsFacts.
Import ListNotations.
Open Scope N_scope.

(* ---------- 1. the edit of an inner vector keeps a valid image of the outer vector valid ---------- *)

(* in range or not: out of range the slice is returned (with OPanic) *)
Lemma flex_edit_flex_valid pv it il l a j fo bs :
  wf (TFlex (TFlex it il) l) = true -> narrow l = true ->
  (forall pa pl, validate (TFlex it il) pa pl = Ok tt ->
     blen (fst (flex_op pv (TFlex it il) pa fo pl)) = blen pl /\
     validate (TFlex it il) pa (fst (flex_op pv (TFlex it il) pa fo pl)) = Ok tt) ->
  validate (TFlex (TFlex it il) l) a bs = Ok tt ->
  blen (fst (flex_edit_flex pv (TFlex (TFlex it il) l) a j fo bs)) = blen bs /\
  validate (TFlex (TFlex it il) l) a (fst (flex_edit_flex pv (TFlex (TFlex it il) l) a j fo bs)) = Ok tt.
Proof.
  intros Hw Hnar Hf Hv.
  destruct (valid_size_view _ a bs Hw Hv) as (k & v & _ & _ & _ & _ & Hview & _).
  destruct (view_flex_node _ _ _ _ Hview) as (vs & ->).
  destruct (flex_edit_flex_ok pv it il l a Hw Hnar j fo bs vs Hf Hv Hview) as [Hnone Hsome].
  destruct (nth_error vs (N.to_nat j)) as [x|] eqn:Hj.
  - destruct (Hsome x eq_refl) as (pa & pl & v' & _ & _ & _ & _ & Hb & Hv' & _). auto.
  - rewrite (Hnone eq_refl). cbn [fst]. auto.
Qed.

(* ---------- 2. through the nested tail ---------- *)

Lemma nested_flex_edit_flex_eq pv t a j fo bs p n ct : tail_container t bs = Some (p, n, ct) ->
  nested_flex_edit_flex pv t a j fo bs =
  (bsplice p n (fst (flex_edit_flex pv ct (a + p) j fo (take n (drop p bs)))) bs,
   snd (flex_edit_flex pv ct (a + p) j fo (take n (drop p bs)))).
Proof. intros H. unfold nested_flex_edit_flex. rewrite H. reflexivity. Qed.

(* the shape of nested_flex_op_ok *)
Theorem nested_flex_edit_flex_ok pv t a j fo bs p n it il l :
  wf t = true -> validate t a bs = Ok tt ->
  tail_container t bs = Some (p, n, TFlex (TFlex it il) l) -> narrow l = true ->
  (forall pa pl, validate (TFlex it il) pa pl = Ok tt ->
     blen (fst (flex_op pv (TFlex it il) pa fo pl)) = blen pl /\
     validate (TFlex it il) pa (fst (flex_op pv (TFlex it il) pa fo pl)) = Ok tt) ->
  let ct := TFlex (TFlex it il) l in
  let sub := take n (drop p bs) in
  let r := nested_flex_edit_flex pv t a j fo bs in
  validate ct (a + p) sub = Ok tt /\
  snd r = snd (flex_edit_flex pv ct (a + p) j fo sub) /\
  take n (drop p (fst r)) = fst (flex_edit_flex pv ct (a + p) j fo sub) /\
  nested_rel t a p n ct bs (fst r).
Proof.
  intros Hw Hv Htc Hnar Hf ct sub r.
  destruct (nested_replace t a bs p n ct (fst (flex_edit_flex pv ct (a + p) j fo sub)) Hw Hv Htc)
    as (H1 & Hwc & _ & Hvs & H).
  destruct (flex_edit_flex_valid pv it il l (a + p) j fo sub Hwc Hnar Hf Hvs) as [Hb Hv'].
  fold ct in Hb, Hv'.
  assert (Hbs : blen sub = n) by (unfold sub; rewrite blen_take_le by (rewrite blen_drop; lia); reflexivity).
  unfold r. rewrite (nested_flex_edit_flex_eq pv t a j fo bs p n ct Htc). cbn [fst snd]. fold sub.
  split; [exact Hvs|]. split; [reflexivity|].
  split; [apply bsplice_frame; lia|]. apply H; auto. lia.
Qed.

(* the same, spelled out in the order of c14_nested_flex_op *)
Theorem nested_flex_edit_flex_spelled pv t a j fo bs p n it il l :
  wf t = true -> validate t a bs = Ok tt ->
  tail_container t bs = Some (p, n, TFlex (TFlex it il) l) -> narrow l = true ->
  (forall pa pl, validate (TFlex it il) pa pl = Ok tt ->
     blen (fst (flex_op pv (TFlex it il) pa fo pl)) = blen pl /\
     validate (TFlex it il) pa (fst (flex_op pv (TFlex it il) pa fo pl)) = Ok tt) ->
  let ct := TFlex (TFlex it il) l in
  let sub := take n (drop p bs) in
  let r := nested_flex_edit_flex pv t a j fo bs in
  blen (fst r) = blen bs /\ validate t a (fst r) = Ok tt /\
  take p (fst r) = take p bs /\ drop (p + n) (fst r) = drop (p + n) bs /\
  validate ct (a + p) sub = Ok tt /\
  take n (drop p (fst r)) = fst (flex_edit_flex pv ct (a + p) j fo sub) /\
  snd r = snd (flex_edit_flex pv ct (a + p) j fo sub) /\
  tail_container t (fst r) = Some (p, n, ct) /\ tail_depth t (fst r) = tail_depth t bs /\
  exists v w', view t bs = Ok v /\ view ct (fst (flex_edit_flex pv ct (a + p) j fo sub)) = Ok w' /\
    view t (fst r) = Ok (replace_tail (tail_depth t bs) v w').
Proof.
  intros Hw Hv Htc Hnar Hf ct sub r.
  destruct (nested_flex_edit_flex_ok pv t a j fo bs p n it il l Hw Hv Htc Hnar Hf)
    as (A & B & C & (D1 & D2 & D3 & D4 & D5 & D6 & D7 & D8)).
  fold ct sub r in A, B, C, D1, D2, D3, D4, D5, D6, D7, D8. rewrite C in D8.
  repeat (split; [assumption|]). exact D8.
Qed.

(* the new tail slice is a valid image of the outer vector at its address *)
Theorem nested_flex_edit_flex_tail_valid pv t a j fo bs p n it il l :
  wf t = true -> validate t a bs = Ok tt ->
  tail_container t bs = Some (p, n, TFlex (TFlex it il) l) -> narrow l = true ->
  (forall pa pl, validate (TFlex it il) pa pl = Ok tt ->
     blen (fst (flex_op pv (TFlex it il) pa fo pl)) = blen pl /\
     validate (TFlex it il) pa (fst (flex_op pv (TFlex it il) pa fo pl)) = Ok tt) ->
  let ct := TFlex (TFlex it il) l in
  let sub := take n (drop p bs) in
  blen (fst (flex_edit_flex pv ct (a + p) j fo sub)) = n /\
  validate ct (a + p) (fst (flex_edit_flex pv ct (a + p) j fo sub)) = Ok tt.
Proof.
  intros Hw Hv Htc Hnar Hf ct sub.
  destruct (nested_replace t a bs p n ct sub Hw Hv Htc) as (H1 & Hwc & _ & Hvs & _).
  destruct (flex_edit_flex_valid pv it il l (a + p) j fo sub Hwc Hnar Hf Hvs) as [Hb Hv'].
  assert (Hbs : blen sub = n) by (unfold sub; rewrite blen_take_le by (rewrite blen_drop; lia); reflexivity).
  fold ct in Hb, Hv'. split; [lia|exact Hv'].
Qed.

(* ---------- 3. pop / truncate / clear of the inner vector: no premise on the operation ---------- *)

Lemma tail_inner_wf t a bs p n it il l : wf t = true -> validate t a bs = Ok tt ->
  tail_container t bs = Some (p, n, TFlex (TFlex it il) l) -> wf (TFlex (TFlex it il) l) = true.
Proof.
  intros Hw Hv Htc.
  destruct (nested_replace t a bs p n _ (take n (drop p bs)) Hw Hv Htc) as (_ & Hwc & _). exact Hwc.
Qed.

Theorem nested_flex_edit_flex_shrink pv t a j fo bs p n it il l :
  wf t = true -> validate t a bs = Ok tt ->
  tail_container t bs = Some (p, n, TFlex (TFlex it il) l) -> narrow l = true -> narrow il = true ->
  (fo = FPop \/ (exists k, fo = FTruncate k) \/ fo = FClear) ->
  let ct := TFlex (TFlex it il) l in
  let sub := take n (drop p bs) in
  let r := nested_flex_edit_flex pv t a j fo bs in
  blen (fst r) = blen bs /\ validate t a (fst r) = Ok tt /\
  take p (fst r) = take p bs /\ drop (p + n) (fst r) = drop (p + n) bs /\
  validate ct (a + p) sub = Ok tt /\
  take n (drop p (fst r)) = fst (flex_edit_flex pv ct (a + p) j fo sub) /\
  snd r = snd (flex_edit_flex pv ct (a + p) j fo sub) /\
  tail_container t (fst r) = Some (p, n, ct) /\ tail_depth t (fst r) = tail_depth t bs /\
  exists v w', view t bs = Ok v /\ view ct (fst (flex_edit_flex pv ct (a + p) j fo sub)) = Ok w' /\
    view t (fst r) = Ok (replace_tail (tail_depth t bs) v w').
Proof.
  intros Hw Hv Htc Hnar Hnari Hfo.
  apply nested_flex_edit_flex_spelled; auto.
  apply (shrink_premise pv it il l (tail_inner_wf t a bs p n it il l Hw Hv Htc) Hnari fo Hfo).
Qed.

(* ---------- 4. the siblings of the tail along the whole path ---------- *)

Theorem nested_flex_edit_flex_siblings pv t a j fo bs p n it il l v v' :
  wf t = true -> validate t a bs = Ok tt ->
  tail_container t bs = Some (p, n, TFlex (TFlex it il) l) -> narrow l = true ->
  (forall pa pl, validate (TFlex it il) pa pl = Ok tt ->
     blen (fst (flex_op pv (TFlex it il) pa fo pl)) = blen pl /\
     validate (TFlex it il) pa (fst (flex_op pv (TFlex it il) pa fo pl)) = Ok tt) ->
  view t bs = Ok v -> view t (fst (nested_flex_edit_flex pv t a j fo bs)) = Ok v' ->
  siblings (tail_depth t bs) v' = siblings (tail_depth t bs) v.
Proof.
  intros Hw Hv Htc Hnar Hf Hview Hview'.
  destruct (nested_flex_edit_flex_ok pv t a j fo bs p n it il l Hw Hv Htc Hnar Hf) as (_ & _ & _ & Hrel).
  exact (nested_rel_siblings _ _ _ _ _ _ _ _ _ Hrel Hview Hview').
Qed.

Theorem nested_flex_edit_flex_siblings_shrink pv t a j fo bs p n it il l v v' :
  wf t = true -> validate t a bs = Ok tt ->
  tail_container t bs = Some (p, n, TFlex (TFlex it il) l) -> narrow l = true -> narrow il = true ->
  (fo = FPop \/ (exists k, fo = FTruncate k) \/ fo = FClear) ->
  view t bs = Ok v -> view t (fst (nested_flex_edit_flex pv t a j fo bs)) = Ok v' ->
  siblings (tail_depth t bs) v' = siblings (tail_depth t bs) v.
Proof.
  intros Hw Hv Htc Hnar Hnari Hfo.
  apply (nested_flex_edit_flex_siblings pv t a j fo bs p n it il l v v' Hw Hv Htc Hnar).
  apply (shrink_premise pv it il l (tail_inner_wf t a bs p n it il l Hw Hv Htc) Hnari fo Hfo).
Qed.

(* at the top of a struct / enum: the tag and every field but the last *)
Theorem nested_flex_edit_flex_top pv t a j fo bs p n it il l g vs g' vs' :
  wf t = true -> validate t a bs = Ok tt ->
  tail_container t bs = Some (p, n, TFlex (TFlex it il) l) -> narrow l = true ->
  (forall pa pl, validate (TFlex it il) pa pl = Ok tt ->
     blen (fst (flex_op pv (TFlex it il) pa fo pl)) = blen pl /\
     validate (TFlex it il) pa (fst (flex_op pv (TFlex it il) pa fo pl)) = Ok tt) ->
  is_cont t = false ->
  view t bs = Ok (VNode g vs) -> view t (fst (nested_flex_edit_flex pv t a j fo bs)) = Ok (VNode g' vs') ->
  g' = g /\ removelast vs' = removelast vs.
Proof.
  intros Hw Hv Htc Hnar Hf Hc Hview Hview'.
  destruct (nested_flex_edit_flex_ok pv t a j fo bs p n it il l Hw Hv Htc Hnar Hf) as (_ & _ & _ & Hrel).
  exact (nested_rel_top _ _ _ _ _ _ _ _ _ _ _ Hc Hrel Hview Hview').
Qed.
