(* ArithFacts.v — rounding facts used by every later proof. *)
From Coq Require Import List NArith Bool Lia ZArith ZifyN ZifyBool.
From Flatty.Model Require Import Base Ty.
Open Scope N_scope.

Lemma ceil_mul_spec x m : 0 < m ->
  exists q, ceil_mul x m = q * m /\ x <= q * m /\ q * m < x + m.
Proof.
  intros Hm. unfold ceil_mul. exists ((x + m - 1) / m). split; [reflexivity|].
  pose proof (N.div_mod (x + m - 1) m ltac:(lia)) as H.
  pose proof (N.mod_lt (x + m - 1) m ltac:(lia)) as Hl.
  nia.
Qed.

Lemma ceil_mul_ge x m : 0 < m -> x <= ceil_mul x m.
Proof. intros Hm. destruct (ceil_mul_spec x m Hm) as (q & -> & ? & ?). lia. Qed.

Lemma ceil_mul_lt x m : 0 < m -> ceil_mul x m < x + m.
Proof. intros Hm. destruct (ceil_mul_spec x m Hm) as (q & -> & ? & ?). lia. Qed.

Lemma ceil_mul_mod x m : 0 < m -> ceil_mul x m mod m = 0.
Proof. intros Hm. unfold ceil_mul. apply N.mod_mul. lia. Qed.

Lemma mod0_mul x m : 0 < m -> x mod m = 0 -> exists q, x = q * m.
Proof.
  intros Hm H. exists (x / m). pose proof (N.div_mod x m ltac:(lia)). lia.
Qed.

Lemma ceil_mul_id x m : 0 < m -> x mod m = 0 -> ceil_mul x m = x.
Proof.
  intros Hm H. destruct (mod0_mul x m Hm H) as (q & ->).
  unfold ceil_mul. replace (q * m + m - 1) with (m - 1 + q * m) by lia.
  rewrite N.div_add by lia. rewrite N.div_small by lia. rewrite N.add_0_l. reflexivity.
Qed.

Lemma ceil_mul_le_mult x y m : 0 < m -> x <= y -> y mod m = 0 -> ceil_mul x m <= y.
Proof.
  intros Hm Hxy Hy. destruct (mod0_mul y m Hm Hy) as (k & ->).
  destruct (ceil_mul_spec x m Hm) as (q & -> & ? & ?).
  destruct (N.le_gt_cases q k) as [Hqk|Hqk].
  - apply N.mul_le_mono_r; lia.
  - assert ((k + 1) * m <= q * m) by (apply N.mul_le_mono_r; lia). lia.
Qed.

Lemma ceil_mul_mono x y m : 0 < m -> x <= y -> ceil_mul x m <= ceil_mul y m.
Proof.
  intros Hm Hxy. apply ceil_mul_le_mult; auto.
  - pose proof (ceil_mul_ge y m Hm). lia.
  - apply ceil_mul_mod; auto.
Qed.

Lemma floor_mul_spec x m : 0 < m ->
  exists q, floor_mul x m = q * m /\ q * m <= x /\ x < q * m + m.
Proof.
  intros Hm. unfold floor_mul. exists (x / m). split; [reflexivity|].
  pose proof (N.div_mod x m ltac:(lia)). pose proof (N.mod_lt x m ltac:(lia)). nia.
Qed.

Lemma floor_mul_le x m : 0 < m -> floor_mul x m <= x.
Proof. intros Hm. destruct (floor_mul_spec x m Hm) as (q & -> & ? & ?). lia. Qed.

Lemma floor_mul_gt x m : 0 < m -> x < floor_mul x m + m.
Proof. intros Hm. destruct (floor_mul_spec x m Hm) as (q & -> & ? & ?). lia. Qed.

Lemma floor_mul_mod x m : 0 < m -> floor_mul x m mod m = 0.
Proof. intros Hm. unfold floor_mul. apply N.mod_mul. lia. Qed.

Lemma floor_mul_id x m : 0 < m -> x mod m = 0 -> floor_mul x m = x.
Proof.
  intros Hm H. destruct (mod0_mul x m Hm H) as (q & ->).
  unfold floor_mul. rewrite N.div_mul by lia. reflexivity.
Qed.

Lemma floor_mul_ge_mult x y m : 0 < m -> y <= x -> y mod m = 0 -> y <= floor_mul x m.
Proof.
  intros Hm Hxy Hy. destruct (mod0_mul y m Hm Hy) as (k & ->).
  destruct (floor_mul_spec x m Hm) as (q & -> & ? & ?).
  destruct (N.le_gt_cases k q) as [Hqk|Hqk].
  - apply N.mul_le_mono_r; lia.
  - assert ((q + 1) * m <= k * m) by (apply N.mul_le_mono_r; lia). lia.
Qed.

Lemma floor_mul_mono x y m : 0 < m -> x <= y -> floor_mul x m <= floor_mul y m.
Proof.
  intros Hm Hxy. apply floor_mul_ge_mult; auto.
  - pose proof (floor_mul_le x m Hm). lia.
  - apply floor_mul_mod; auto.
Qed.

Lemma floor_mul_idem x m : 0 < m -> floor_mul (floor_mul x m) m = floor_mul x m.
Proof. intros Hm. apply floor_mul_id; auto. apply floor_mul_mod; auto. Qed.

Lemma mod_add_mult a b m : 0 < m -> a mod m = 0 -> b mod m = 0 -> (a + b) mod m = 0.
Proof.
  intros Hm Ha Hb. destruct (mod0_mul a m Hm Ha) as (p & ->). destruct (mod0_mul b m Hm Hb) as (q & ->).
  replace (p * m + q * m) with ((p + q) * m) by lia. apply N.mod_mul. lia.
Qed.

Lemma mod_sub_mult a b m : 0 < m -> a mod m = 0 -> b mod m = 0 -> (a - b) mod m = 0.
Proof.
  intros Hm Ha Hb. destruct (mod0_mul a m Hm Ha) as (p & ->). destruct (mod0_mul b m Hm Hb) as (q & ->).
  replace (p * m - q * m) with ((p - q) * m) by nia. apply N.mod_mul. lia.
Qed.

Lemma mod_trans a m k : 0 < m -> 0 < k -> a mod m = 0 -> m mod k = 0 -> a mod k = 0.
Proof.
  intros Hm Hk Ha Hmk. destruct (mod0_mul a m Hm Ha) as (p & ->). destruct (mod0_mul m k Hk Hmk) as (q & ->).
  replace (p * (q * k)) with (p * q * k) by lia. apply N.mod_mul. lia.
Qed.

Lemma umax_spec a b : umax a b = N.max a b.
Proof. unfold umax. destruct (N.leb_spec b a); lia. Qed.
Lemma umin_spec a b : umin a b = N.min a b.
Proof. unfold umin. destruct (N.leb_spec a b); lia. Qed.

(* ---------- alignments are powers of two up to 16 ---------- *)

Definition P16 (a : N) : Prop := a = 1 \/ a = 2 \/ a = 4 \/ a = 8 \/ a = 16.

Lemma P16_pos a : P16 a -> 0 < a.
Proof. unfold P16. lia. Qed.

Lemma P16_umax a b : P16 a -> P16 b -> P16 (umax a b).
Proof. intros Ha Hb. rewrite umax_spec. unfold P16 in *. lia. Qed.

Lemma P16_div a b : P16 a -> P16 b -> a <= b -> b mod a = 0.
Proof.
  unfold P16. intros [->|[->|[->|[->| ->]]]] [->|[->|[->|[->| ->]]]] H; try lia; reflexivity.
Qed.

Lemma P16_umax_mod_l a b : P16 a -> P16 b -> umax a b mod a = 0.
Proof.
  intros Ha Hb. rewrite umax_spec. apply P16_div; auto.
  - rewrite <- umax_spec. apply P16_umax; auto.
  - lia.
Qed.
Lemma P16_umax_mod_r a b : P16 a -> P16 b -> umax a b mod b = 0.
Proof.
  intros Ha Hb. rewrite umax_spec. apply P16_div; auto.
  - rewrite <- umax_spec. apply P16_umax; auto.
  - lia.
Qed.

(* the library's max(L::SIZE, T::ALIGN) is the C offset of the data after the length *)
Lemma max_pow2_is_ceil a b : P16 a -> P16 b -> umax a b = ceil_mul a b.
Proof.
  unfold P16. intros [->|[->|[->|[->| ->]]]] [->|[->|[->|[->| ->]]]]; reflexivity.
Qed.

Lemma pow2_le16_P16 a : pow2_le16 a = true -> P16 a.
Proof.
  unfold pow2_le16, P16. rewrite !orb_true_iff, !N.eqb_eq. tauto.
Qed.
