(* FramingFacts.v — the framing contract (C06): a verdict other than "need more bytes" persists
   when further bytes are appended to the slice. *)
From Coq Require Import List NArith Bool Lia ZArith ZifyN ZifyBool ZifyNat.
From Flatty.Model Require Import Base Ty Layout Utf8 Validate.
From Flatty.Proofs Require Import ArithFacts LayoutFacts BytesFacts ValidateFacts.
Open Scope N_scope.

(* ---------- extension of a byte string ---------- *)

Definition ext (bs bs' : bytes) : Prop := exists s, bs' = bs ++ s.

Lemma ext_refl bs : ext bs bs.
Proof. exists []. rewrite app_nil_r. reflexivity. Qed.

Lemma ext_app bs s : ext bs (bs ++ s).
Proof. exists s. reflexivity. Qed.

Lemma ext_blen bs bs' : ext bs bs' -> blen bs <= blen bs'.
Proof. intros [s ->]. rewrite blen_app. lia. Qed.

Lemma ext_take bs bs' n : ext bs bs' -> n <= blen bs -> take n bs' = take n bs.
Proof. intros [s ->] H. apply take_app_le. exact H. Qed.

Lemma drop_app_le n (a b : bytes) : n <= blen a -> drop n (a ++ b) = drop n a ++ b.
Proof.
  intros H. unfold drop, blen in *. rewrite skipn_app.
  replace (N.to_nat n - length a)%nat with 0%nat by lia. reflexivity.
Qed.

Lemma ext_drop bs bs' n : ext bs bs' -> n <= blen bs -> ext (drop n bs) (drop n bs').
Proof. intros [s ->] H. exists s. apply drop_app_le. exact H. Qed.

Lemma ext_take_take bs bs' n n' : ext bs bs' -> n <= blen bs -> n <= n' -> ext (take n bs) (take n' bs').
Proof.
  intros He Hn Hnn. exists (drop n (take n' bs')).
  rewrite <- (ext_take bs bs' n He Hn). rewrite <- (take_take n n' bs') by exact Hnn.
  symmetry. apply take_drop.
Qed.

Lemma ext_take_drop bs bs' m n : ext bs bs' -> m + n <= blen bs -> take n (drop m bs') = take n (drop m bs).
Proof.
  intros He H. rewrite !take_drop_comm. rewrite (ext_take bs bs' (m + n) He H). reflexivity.
Qed.

Lemma ext_read_int l bs bs' : ext bs bs' -> isize l <= blen bs -> read_int l bs' = read_int l bs.
Proof.
  intros He H. pose proof (ext_blen _ _ He) as Hb. unfold read_int.
  destruct (N.leb_spec (isize l) (blen bs)); [|lia]. destruct (N.leb_spec (isize l) (blen bs')); [|lia].
  rewrite (ext_take bs bs' _ He H). reflexivity.
Qed.

Lemma ext_read_len l bs bs' : ext bs bs' -> isize l <= blen bs -> read_len l bs' = read_len l bs.
Proof. intros He H. unfold read_len. rewrite (ext_read_int l bs bs' He H). reflexivity. Qed.

(* ---------- verdicts that persist ---------- *)

(* "need more bytes" (and the crash outcomes, which C01 excludes) say nothing about an extension *)
Definition insuff {A} (r : res A) : Prop :=
  match r with Err InsufficientSize _ => True | Crash _ => True | _ => False end.

Definition persist {A} (r r' : res A) : Prop := insuff r \/ r' = r.

Lemma persist_refl {A} (r : res A) : persist r r.
Proof. right. reflexivity. Qed.

Lemma persist_insuff {A} (r r' : res A) : insuff r -> persist r r'.
Proof. intros H. left. exact H. Qed.

Lemma persist_bind {A B} (r r' : res A) (f f' : A -> res B) :
  persist r r' -> (forall x, r = Ok x -> persist (f x) (f' x)) -> persist (bind r f) (bind r' f').
Proof.
  intros [Hi| ->] Hf.
  - left. destruct r as [x|k p|c]; cbn in *; [contradiction| |exact I]. destruct k; try contradiction. exact I.
  - destruct r as [x|k p|c]; cbn [bind]; [apply Hf; reflexivity| |]; apply persist_refl.
Qed.

Lemma persist_shift {A} off (r r' : res A) : persist r r' -> persist (shift off r) (shift off r').
Proof.
  intros [Hi| ->]; [|apply persist_refl]. left.
  destruct r as [x|k p|c]; cbn in *; [contradiction| |exact I]. destruct k; try contradiction. exact I.
Qed.

Lemma insuff_err_insufficient {A} p : insuff (@Err A InsufficientSize p).
Proof. exact I. Qed.

(* ---------- loops ---------- *)

(* elements that lie inside the shorter slice are the same bytes in the longer one *)
Lemma arr_loop_ext f s bs bs' : ext bs bs' -> forall k i,
  (i + N.of_nat k) * s <= blen bs -> arr_loop f s bs' k i = arr_loop f s bs k i.
Proof.
  intros He. pose proof (ext_blen _ _ He) as Hb.
  induction k as [|k IH]; intros i Hk; [reflexivity|].
  cbn [arr_loop]. unfold drop_unchecked, take_unchecked.
  assert (H1 : i * s <= blen bs) by nia. assert (H2 : i * s + s <= blen bs) by nia.
  destruct (N.leb_spec (i * s) (blen bs)); [|lia]. destruct (N.leb_spec (i * s) (blen bs')); [|lia].
  cbn [bind]. rewrite !blen_drop.
  destruct (N.leb_spec s (blen bs - i * s)); [|lia]. destruct (N.leb_spec s (blen bs' - i * s)); [|lia].
  cbn [bind]. rewrite (ext_take_drop bs bs' (i * s) s He H2).
  destruct (shift (i * s) (f i (take s (drop (i * s) bs)))); cbn [bind]; try reflexivity.
  apply IH. nia.
Qed.

(* the FlexVec walk: the result does not depend on the fuel once it exceeds the length, and a
   verdict reached inside the shorter data is the verdict on the longer data *)
Lemma flex_fold_ext {A} l os al (item : A -> N -> N -> bytes -> res A) :
  0 < os -> isize l <= os ->
  (forall acc pos pa p p', ext p p' -> persist (item acc pos pa p) (item acc pos pa p')) ->
  forall fuel fuel' acc a rem rem' pos,
    ext rem rem' -> (length rem < fuel)%nat -> (length rem' < fuel')%nat ->
    persist (flex_fold l os al item fuel acc a rem pos) (flex_fold l os al item fuel' acc a rem' pos).
Proof.
  intros Hos Hlos Hitem. induction fuel as [|fuel IH]; intros fuel' acc a rem rem' pos He Hf Hf'; [lia|].
  destruct fuel' as [|fuel']; [lia|]. pose proof (ext_blen _ _ He) as Hb.
  cbn [flex_fold].
  destruct (negb (aligned a (ialign l))); [apply persist_refl|].
  destruct (N.ltb_spec (blen rem) (isize l)) as [Hs|Hs]; [apply persist_insuff; exact I|].
  destruct (N.ltb_spec (blen rem') (isize l)); [lia|].
  rewrite (ext_read_int l rem rem' He Hs).
  destruct (read_int l rem) as [raw|k p|c]; cbn [bind]; [|apply persist_refl|apply persist_refl].
  destruct (to_usize raw) as [next|k p|c]; cbn [bind]; [|apply persist_refl|apply persist_refl].
  destruct (N.eqb_spec next 0); [apply persist_refl|].
  destruct (to_usize (int_max l)) as [m|k p|c]; cbn [bind]; [|apply persist_refl|apply persist_refl].
  destruct (N.ltb_spec next os) as [H1|H1]; [apply persist_refl|].
  destruct (next =? m) eqn:Elast; cbn [negb andb orb].
  - (* last item: the payload runs to the end of the data *)
    destruct (N.ltb_spec (blen rem) os) as [H2|H2]; [apply persist_insuff; exact I|].
    destruct (N.ltb_spec (blen rem') os); [lia|].
    unfold split_at. destruct (N.leb_spec os (blen rem)); [|lia]. destruct (N.leb_spec os (blen rem')); [|lia].
    cbn [bind snd]. apply persist_bind.
    + apply Hitem. apply ext_drop; [exact He|lia].
    + intros acc' _. apply persist_refl.
  - destruct (negb (next mod al =? 0)); [apply persist_refl|].
    destruct (N.ltb_spec (blen rem) next) as [H2|H2]; cbn [orb]; [apply persist_insuff; exact I|].
    destruct (N.ltb_spec (blen rem') next); [lia|]. cbn [orb].
    destruct (N.ltb_spec (blen rem) os) as [H3|H3]; [apply persist_insuff; exact I|].
    destruct (N.ltb_spec (blen rem') os); [lia|].
    unfold split_at. destruct (N.leb_spec next (blen rem)); [|lia]. destruct (N.leb_spec next (blen rem')); [|lia].
    cbn [bind fst snd]. rewrite (ext_take rem rem' next He H2).
    rewrite blen_take_le by lia. destruct (N.leb_spec os next); [|lia]. cbn [bind snd].
    apply persist_bind; [apply persist_refl|].
    intros acc' _. apply IH.
    + apply ext_drop; [exact He|lia].
    + unfold drop. rewrite skipn_length. unfold blen in *. lia.
    + unfold drop. rewrite skipn_length. unfold blen in *. lia.
Qed.

(* ---------- the main induction ---------- *)

Lemma check_align_min_ext t a bs bs' : ext bs bs' ->
  persist (check_align_min t a bs) (check_align_min t a bs').
Proof.
  intros He. pose proof (ext_blen _ _ He). unfold check_align_min.
  destruct (negb (aligned a (align t))); [apply persist_refl|].
  destruct (N.ltb_spec (blen bs) (min_size t)); [apply persist_insuff; exact I|].
  destruct (N.ltb_spec (blen bs') (min_size t)); [lia|]. apply persist_refl.
Qed.

Lemma validate_ext_mut :
  (forall t, wf t = true -> forall a bs bs',
      ext bs bs' -> min_size t <= blen bs -> persist (validate_u t a bs) (validate_u t a bs')) /\
  (forall fs, wfF fs -> forall a data data' pos,
      ext data data' -> end_min fs pos <= pos + blen data ->
      persist (validate_fields fs a data pos) (validate_fields fs a data' pos)) /\
  (forall vs s, wf_variants s vs = true -> forall k a data data',
      ext data data' -> (N.of_nat k < vlen vs) ->
      (s = true -> max_fold_size vs <= blen data) ->
      persist (validate_variant vs k s a data) (validate_variant vs k s a data')).
Proof.
  apply ty_mutind.
  - (* TUnit *) intros; apply persist_refl.
  - (* TInt *) intros; apply persist_refl.
  - (* TBool *) intros _ a bs bs' [s ->] Hm. cbn in Hm. destruct bs as [|b r]; [cbn in Hm; lia|]. apply persist_refl.
  - (* TCLike *) intros tag n d Hw a bs bs' He Hm. cbn in Hm. cbn [validate_u].
    rewrite (ext_read_int tag bs bs' He Hm). apply persist_refl.
  - (* TArr *) intros t IH n Hw a bs bs' He Hm. cbn in Hm. cbn [validate_u].
    rewrite (arr_loop_ext _ _ bs bs' He); [apply persist_refl|]. rewrite N2Nat.id. lia.
  - (* TVec *) intros t IH l Hw a bs bs' He Hm.
    apply wf_vec_inv in Hw. destruct Hw as (Hwt & Hs & Hl). cbn [min_size] in Hm. cbn [validate_u].
    fold (vec_data_offset t l) in Hm. set (d := vec_data_offset t l) in *.
    pose proof (ext_blen _ _ He) as Hb.
    assert (Hal : 0 < align (TVec t l)).
    { cbn [align]. apply P16_pos, P16_umax; [apply wf_int_P16 in Hl; tauto | apply align_P16; auto]. }
    assert (Hdl : isize l <= d) by (unfold d, vec_data_offset; apply umax_ge_l).
    unfold vec_slots. fold d. destruct (N.ltb_spec (blen bs) d); [lia|]. destruct (N.ltb_spec (blen bs') d); [lia|].
    rewrite (ext_read_len l bs bs' He) by lia.
    set (room := floor_mul (blen bs - d) (align (TVec t l))).
    set (room' := floor_mul (blen bs' - d) (align (TVec t l))).
    assert (Hroom : room <= room') by (apply floor_mul_mono; [exact Hal|lia]).
    assert (Hr1 : room <= blen bs - d) by (apply floor_mul_le; auto).
    destruct (N.eqb_spec (ssize t) 0) as [Hz|Hz]; cbn [bind].
    + destruct (read_len l bs) as [len|k p|c]; cbn [bind]; [|apply persist_refl|apply persist_refl].
      unfold clamp_cap. destruct (to_usize (int_max l)) as [m|k p|c]; cbn [bind]; [|apply persist_refl|apply persist_refl].
      destruct (umin 0 m <? len); [apply persist_refl|].
      unfold drop_unchecked. destruct (N.leb_spec d (blen bs)); [|lia]. destruct (N.leb_spec d (blen bs')); [|lia].
      cbn [bind]. rewrite Hz.
      (* zero-sized elements: every element is the empty slice *)
      assert (Hloop : forall f k i (x y : bytes), arr_loop f 0 x k i = arr_loop f 0 y k i).
      { intros f k. induction k as [|k IHk]; intros i x y; [reflexivity|].
        cbn [arr_loop]. unfold drop_unchecked, take_unchecked. rewrite !N.mul_0_r.
        destruct (N.leb_spec 0 (blen x)); [|lia]. destruct (N.leb_spec 0 (blen y)); [|lia]. cbn [bind].
        rewrite !blen_drop. destruct (N.leb_spec 0 (blen x - 0)); [|lia]. destruct (N.leb_spec 0 (blen y - 0)); [|lia].
        cbn [bind]. unfold take. cbn [N.to_nat firstn].
        destruct (shift 0 (f i [])); cbn [bind]; try reflexivity. apply IHk. }
      rewrite (Hloop _ _ _ (drop d bs') (drop d bs)). apply persist_refl.
    + destruct (read_len l bs) as [len|k p|c]; cbn [bind]; [|apply persist_refl|apply persist_refl].
      unfold clamp_cap. destruct (to_usize (int_max l)) as [m|k p|c]; cbn [bind]; [|apply persist_refl|apply persist_refl].
      rewrite !umin_spec.
      destruct (N.ltb_spec (N.min (room / ssize t) m) len) as [Hc|Hc]; [apply persist_insuff; exact I|].
      assert (Hdiv : room / ssize t <= room' / ssize t) by (apply N.div_le_mono; auto).
      destruct (N.ltb_spec (N.min (room' / ssize t) m) len); [lia|].
      unfold drop_unchecked. destruct (N.leb_spec d (blen bs)); [|lia]. destruct (N.leb_spec d (blen bs')); [|lia].
      cbn [bind]. rewrite (arr_loop_ext _ _ (drop d bs) (drop d bs')); [apply persist_refl|apply ext_drop; auto|].
      rewrite N2Nat.id, blen_drop.
      assert (len <= room / ssize t) by lia.
      pose proof (N.mul_div_le room (ssize t) Hz). nia.
  - (* TStr *) intros l Hw a bs bs' He Hm. cbn in Hw, Hm. cbn [validate_u].
    pose proof (ext_blen _ _ He) as Hb.
    unfold str_slots. destruct (N.ltb_spec (blen bs) (isize l)); [lia|]. destruct (N.ltb_spec (blen bs') (isize l)); [lia|].
    cbn [bind]. rewrite (ext_read_len l bs bs' He) by lia.
    destruct (read_len l bs) as [len|k p|c]; cbn [bind]; [|apply persist_refl|apply persist_refl].
    unfold clamp_cap. destruct (to_usize (int_max l)) as [m|k p|c]; cbn [bind]; [|apply persist_refl|apply persist_refl].
    rewrite !umin_spec.
    assert (Hal : 0 < ialign l) by (apply wf_int_P16 in Hw; apply P16_pos; tauto).
    set (room := floor_mul (blen bs - isize l) (ialign l)).
    set (room' := floor_mul (blen bs' - isize l) (ialign l)).
    assert (Hroom : room <= room') by (apply floor_mul_mono; [exact Hal|lia]).
    assert (Hr1 : room <= blen bs - isize l) by (apply floor_mul_le; auto).
    destruct (N.ltb_spec (N.min room m) len) as [Hc|Hc]; [apply persist_insuff; exact I|].
    destruct (N.ltb_spec (N.min room' m) len); [lia|].
    unfold drop_unchecked. destruct (N.leb_spec (isize l) (blen bs)); [|lia]. destruct (N.leb_spec (isize l) (blen bs')); [|lia].
    cbn [bind]. unfold take_unchecked. rewrite !blen_drop.
    destruct (N.leb_spec len (blen bs - isize l)); [|lia]. destruct (N.leb_spec len (blen bs' - isize l)); [|lia].
    cbn [bind]. rewrite (ext_take_drop bs bs' (isize l) len He) by lia. apply persist_refl.
  - (* TFlex *) intros t IH l Hw a bs bs' He Hm.
    apply wf_flex_inv in Hw. destruct Hw as [Hwt Hl]. cbn [validate_u].
    pose proof (ext_blen _ _ He) as Hb.
    assert (Hal : 0 < align (TFlex t l)).
    { cbn [align]. apply P16_pos, P16_umax; [apply wf_int_P16 in Hl; tauto | apply align_P16; auto]. }
    assert (Hos : 0 < flex_offset_size t l).
    { unfold flex_offset_size. pose proof (umax_ge_r (isize l) (align t)). pose proof (align_pos _ Hwt). lia. }
    assert (Hlos : isize l <= flex_offset_size t l) by (unfold flex_offset_size; apply umax_ge_l).
    apply persist_bind; [|intros; apply persist_refl].
    apply (flex_fold_ext l _ _ _ Hos Hlos).
    + intros acc pos pa p p' Hep. apply persist_shift. apply persist_bind; [apply check_align_min_ext; exact Hep|].
      intros [] Hc. apply IH; auto. eapply check_align_min_ok; eauto.
    + apply ext_take_take; [exact He|apply floor_mul_le; exact Hal|apply floor_mul_mono; [exact Hal|exact Hb]].
    + unfold flex_fuel. lia.
    + unfold flex_fuel. lia.
  - (* TStruct *) intros s fs IH Hw a bs bs' He Hm. cbn [validate_u].
    pose proof (ext_blen _ _ He) as Hb.
    destruct (wf_struct_wfF _ _ Hw) as [Hnil|Hf].
    { subst fs. destruct s; apply persist_refl. }
    pose proof (align_fields_P16 fs (or_intror Hf)) as Hp. pose proof (P16_pos _ Hp) as Hpos.
    apply IH; auto.
    + destruct s; auto. apply ext_take_take; [exact He|apply floor_mul_le; exact Hpos|apply floor_mul_mono; auto].
    + rewrite N.add_0_l. destruct fs as [|t0 r0]; [cbn; lia|].
      rewrite <- fold_min_size_0 by congruence.
      destruct s.
      * cbn [wf] in Hw. rewrite fold_min_size_sized by auto.
        cbn [min_size ssize] in Hm.
        pose proof (ceil_mul_ge (fold_size 0 (FCons t0 r0)) (align_fields (FCons t0 r0)) Hpos). lia.
      * cbn [min_size] in Hm. rewrite blen_take.
        set (m := fold_min_size 0 (FCons t0 r0)) in *. set (al := align_fields (FCons t0 r0)) in *.
        pose proof (ceil_mul_ge m al Hpos).
        pose proof (floor_mul_ge_mult (blen bs) (ceil_mul m al) al Hpos Hm (ceil_mul_mod _ _ Hpos)).
        pose proof (floor_mul_le (blen bs) al Hpos). lia.
  - (* TEnum *) intros s tag d vs IH Hw a bs bs' He Hm.
    pose proof (ext_blen _ _ He) as Hb.
    pose proof Hw as Hw0. apply wf_enum_inv in Hw. destruct Hw as (Hi & Hnat & Hv1 & Hv2 & Hd & Hv).
    cbn [validate_u].
    set (al := umax (ialign tag) (align_variants vs)) in *.
    assert (Hal : 0 < al).
    { apply P16_pos, P16_umax; [apply wf_int_P16 in Hi; tauto | eapply align_variants_P16; eauto]. }
    pose proof (isize_le_data_offset tag vs Hal) as Hdo.
    assert (Hd2 : data_offset tag vs <= blen bs /\ (s = true -> max_fold_size vs <= blen bs - data_offset tag vs)).
    { destruct s.
      - cbn [min_size ssize] in Hm. fold al in Hm. unfold data_offset. fold al.
        pose proof (ceil_mul_ge (ceil_mul (isize tag) al + max_fold_size vs) al Hal). split; [lia|]. intros _. lia.
      - pose proof (min_size_enum_ge _ _ _ Hw0). split; [lia|]. discriminate. }
    destruct Hd2 as [Hd2 Hd3].
    rewrite (ext_read_int tag bs bs' He) by lia.
    destruct (read_int tag bs) as [v|k p|c]; cbn [bind]; [|apply persist_refl|apply persist_refl].
    destruct (N.ltb_spec v (vlen vs)) as [Hlt|Hge]; cbn [negb]; [|apply persist_refl].
    unfold drop_unchecked. destruct (N.leb_spec (data_offset tag vs) (blen bs)); [|lia].
    destruct (N.leb_spec (data_offset tag vs) (blen bs')); [|lia]. cbn [bind].
    apply persist_shift. apply (IH s); auto.
    + destruct s; [apply ext_drop; auto|].
      apply ext_take_take; [apply ext_drop; auto|apply floor_mul_le; exact Hal|].
      apply floor_mul_mono; [exact Hal|]. rewrite !blen_drop. lia.
    + rewrite N2Nat.id. exact Hlt.
    + intros ->. rewrite blen_drop. auto.
  - (* FNil *) intros; apply persist_refl.
  - (* FCons *) intros t IHt r IHr Hw a data data' pos He Hend.
    pose proof (ext_blen _ _ He) as Hb.
    pose proof Hw as Hw0. apply wfF_cons in Hw. destruct Hw as [Hwt Hr].
    destruct r as [|t' r'].
    + rewrite !validate_fields_single. cbn [end_min] in Hend.
      apply persist_bind; [|intros; apply persist_refl]. apply persist_shift. apply IHt; auto. lia.
    + destruct Hr as [Hr|[Hst Hr]]; [discriminate|].
      rewrite !validate_fields_cons2. rewrite end_min_cons2 in Hend.
      pose proof (end_min_ge _ Hr (pos_next pos t t')) as Hge.
      assert (Hnp : pos + ssize t <= pos_next pos t t').
      { unfold pos_next. apply ceil_mul_ge. apply wfF_cons in Hr. apply align_pos. tauto. }
      apply persist_bind.
      * apply persist_shift. apply IHt; auto. rewrite min_size_sized by auto. lia.
      * intros _ _. cbv zeta. unfold split_at.
        destruct (N.leb_spec (pos_next pos t t' - pos) (blen data)); [|lia].
        destruct (N.leb_spec (pos_next pos t t' - pos) (blen data')); [|lia]. cbn [bind snd].
        apply IHr; auto.
        -- apply ext_drop; [exact He|lia].
        -- rewrite blen_drop. lia.
  - (* VNil *) intros s _ k a data data' _ Hk. cbn in Hk. lia.
  - (* VCons *) intros fs IHf r IHr s Hw k a data data' He Hk Hs.
    pose proof (ext_blen _ _ He) as Hb.
    pose proof Hw as Hw0. apply wf_variants_cons in Hw. destruct Hw as [Hf Hr].
    cbn [validate_variant]. destruct k as [|k'].
    + destruct s; cbn [negb andb].
      * destruct Hf as [->|Hf]; [apply persist_refl|].
        apply IHf; auto. rewrite N.add_0_l.
        destruct fs as [|t0 r0]; [cbn; lia|]. rewrite <- fold_min_size_0 by congruence.
        specialize (Hs eq_refl). cbn [max_fold_size] in Hs.
        cbn [wf_variants] in Hw0. rewrite andb_true_iff in Hw0. destruct Hw0 as [Hfs _].
        rewrite fold_min_size_sized by auto. pose proof (umax_ge_l (fold_size 0 (FCons t0 r0)) (max_fold_size r)). lia.
      * destruct (N.ltb_spec (blen data) (data_min_size fs)) as [Hc|Hc]; [apply persist_insuff; exact I|].
        destruct (N.ltb_spec (blen data') (data_min_size fs)); [lia|].
        destruct Hf as [->|Hf]; [apply persist_refl|].
        apply IHf; auto. rewrite N.add_0_l.
        destruct fs as [|t0 r0]; [cbn; lia|]. rewrite <- fold_min_size_0 by congruence.
        unfold data_min_size in Hc. exact Hc.
    + apply IHr; auto.
      * cbn [vlen] in Hk. lia.
      * intros Hst. specialize (Hs Hst). cbn [max_fold_size] in Hs.
        pose proof (umax_ge_r (fold_size 0 fs) (max_fold_size r)). lia.
Qed.

(* ---------- C06: verdicts other than "need more" persist under extension ---------- *)

Theorem validate_ext t a bs s : wf t = true -> persist (validate t a bs) (validate t a (bs ++ s)).
Proof.
  intros Hw. unfold validate. apply persist_bind; [apply check_align_min_ext, ext_app|].
  intros [] Hc. apply (proj1 validate_ext_mut); auto; [apply ext_app|]. eapply check_align_min_ok; eauto.
Qed.

Theorem validate_stable_ok t a bs s : wf t = true ->
  validate t a bs = Ok tt -> validate t a (bs ++ s) = Ok tt.
Proof.
  intros Hw H. destruct (validate_ext t a bs s Hw) as [Hi|He]; [rewrite H in Hi; contradiction|].
  rewrite He. exact H.
Qed.

Theorem validate_stable_err t a bs s k p : wf t = true -> k <> InsufficientSize ->
  validate t a bs = Err k p -> validate t a (bs ++ s) = Err k p.
Proof.
  intros Hw Hk H. destruct (validate_ext t a bs s Hw) as [Hi|He].
  - rewrite H in Hi. cbn in Hi. destruct k; contradiction.
  - rewrite He. exact H.
Qed.

(* contrapositive: a prefix of a slice is either "need more" or has the verdict of the slice *)
Theorem validate_prefix t a bs n : wf t = true -> narrow_ty t = true -> bytes_ok bs = true ->
  (exists p, validate t a (take n bs) = Err InsufficientSize p) \/ validate t a (take n bs) = validate t a bs.
Proof.
  intros Hw Hn Hb.
  pose proof (validate_ext t a (take n bs) (drop n bs) Hw) as H. rewrite take_drop in H.
  destruct H as [Hi|He]; [|right; symmetry; exact He].
  destruct (validate_total t a (take n bs) Hw Hn (bytes_ok_take _ _ Hb)) as [Hok|(k & p & Herr)].
  - rewrite Hok in Hi. contradiction.
  - rewrite Herr in Hi. cbn in Hi. destruct k; try contradiction. left. eauto.
Qed.
