(* Extract.v — extraction of the executable model for the correspondence check.
   Only ExtrOcamlBasic (bool, option, unit, list, prod, sumbool -> OCaml types of the same name);
   no Extract Constant; N / positive / nat stay the extracted inductive types. *)
From Flatty.Model Require Import Base Ty Layout Utf8 Validate View Emplace Ops Io Portable.
Require Extraction.
Require Import ExtrOcamlBasic.
Extraction Language OCaml.
Extraction "model.ml"
  Base.ceil_mul Base.floor_mul Base.to_bytes Base.of_bytes Base.blen Base.take Base.drop
  Ty.wf Ty.sized Ty.narrow_ty
  Layout.align Layout.ssize Layout.min_size Layout.last_field_offset Layout.data_offset
  Validate.validate
  View.view View.strip View.caps_ok View.size_m View.bytes_len
  Emplace.emplace Emplace.assign_in_place Emplace.default_in_place
  Ops.vec_op Ops.flex_op Ops.tail_container Ops.nested_vec_op Ops.nested_flex_op Ops.flex_edit_flex Ops.nested_flex_edit_flex
  Io.io_capacity Io.new_buffer Io.recv_many Io.arecv_many Io.send_many Io.asend_many
  Io.sys_step Io.run_schedule Io.run_tail Io.sys_done
  Portable.p_enc Portable.p_dec.
