pub fn run(_args: &[&str]) -> String {
    "HARNESS-ERROR not implemented".into()
}
