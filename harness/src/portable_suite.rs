pub fn run(_args: &[String]) {
    println!("not implemented");
}
