//! Portable scalars (C16): one line per case, `P <cid> <type> <op> <a> [<b>]`.
//! `enc` / `dec` / `val` results are compared with the model; for every other operation the line
//! carries both the portable result (`p=`) and the native type's result re-encoded in the
//! portable type's byte order (`n=`): they must be equal (panic vs panic included).
#![allow(clippy::all)]
use crate::probe::{bytes_to_hex, hex_to_bytes, parse_num};
use flatty::portable::{be, le, Bool};
use flatty::prelude::*;
use num_traits::{Bounded, FromPrimitive, Num, NumCast, One, Signed, ToPrimitive, Zero};
use std::mem::{align_of, size_of};
use std::panic::{catch_unwind, AssertUnwindSafe};

fn guard<F: FnOnce() -> String>(f: F) -> String {
    catch_unwind(AssertUnwindSafe(f)).unwrap_or_else(|_| "panic".into())
}
fn both<F: FnOnce() -> String, G: FnOnce() -> String>(p: F, n: G) -> String {
    format!("p={} n={}", guard(p), guard(n))
}
fn opt<T, F: Fn(T) -> String>(o: Option<T>, f: F) -> String {
    match o {
        Some(x) => format!("some:{}", f(x)),
        None => "none".into(),
    }
}

macro_rules! int_common {
    ($P:ty, $N:ty, $U:ty, $tb:ident, $op:expr, $a:expr, $b:expr, $raw:expr) => {{
        let a_n: $N = ($a as $U) as $N;
        let b_n: $N = ($b as $U) as $N;
        let a_p = <$P as From<$N>>::from(a_n);
        let b_p = <$P as From<$N>>::from(b_n);
        let enc = |x: $N| bytes_to_hex(&x.$tb());
        let encp = |x: $P| bytes_to_hex(&x.to_bytes());
        match $op {
            "enc" => Some(format!("bytes={} size={} align={}", encp(a_p), size_of::<$P>(), align_of::<$P>())),
            "dec" => {
                let v = hex_to_bytes($raw);
                let p = <$P>::from_bytes(v.as_slice().try_into().unwrap());
                Some(format!("bits={:#x} flatalign={} flatsize={}", (<$N as From<$P>>::from(p) as $U) as u128, <$P as FlatBase>::ALIGN, <$P as FlatSized>::SIZE))
            }
            "roundtrip" => Some(both(|| encp(<$P as From<$N>>::from(<$N as From<$P>>::from(a_p))), || enc(a_n))),
            "add" => Some(both(|| encp(a_p + b_p), || enc(a_n + b_n))),
            "sub" => Some(both(|| encp(a_p - b_p), || enc(a_n - b_n))),
            "mul" => Some(both(|| encp(a_p * b_p), || enc(a_n * b_n))),
            "div" => Some(both(|| encp(a_p / b_p), || enc(a_n / b_n))),
            "rem" => Some(both(|| encp(a_p % b_p), || enc(a_n % b_n))),
            "addassign" => Some(both(|| { let mut x = a_p; x += b_p; encp(x) }, || { let mut x = a_n; x += b_n; enc(x) })),
            "subassign" => Some(both(|| { let mut x = a_p; x -= b_p; encp(x) }, || { let mut x = a_n; x -= b_n; enc(x) })),
            "mulassign" => Some(both(|| { let mut x = a_p; x *= b_p; encp(x) }, || { let mut x = a_n; x *= b_n; enc(x) })),
            "divassign" => Some(both(|| { let mut x = a_p; x /= b_p; encp(x) }, || { let mut x = a_n; x /= b_n; enc(x) })),
            "remassign" => Some(both(|| { let mut x = a_p; x %= b_p; encp(x) }, || { let mut x = a_n; x %= b_n; enc(x) })),
            "pcmp" => Some(both(|| format!("{:?}", a_p.partial_cmp(&b_p)), || format!("{:?}", a_n.partial_cmp(&b_n)))),
            "eq" => Some(both(|| format!("{}", a_p == b_p), || format!("{}", a_p.to_bytes() == b_p.to_bytes()))),
            "zero" => Some(both(|| encp(<$P>::zero()), || enc(<$N>::zero()))),
            "one" => Some(both(|| encp(<$P>::one()), || enc(<$N>::one()))),
            "iszero" => Some(both(|| format!("{}", a_p.is_zero()), || format!("{}", a_n.is_zero()))),
            "minv" => Some(both(|| encp(<$P as Bounded>::min_value()), || enc(<$N>::MIN))),
            "maxv" => Some(both(|| encp(<$P as Bounded>::max_value()), || enc(<$N>::MAX))),
            "tou64" => Some(both(|| opt(a_p.to_u64(), |x| x.to_string()), || opt(a_n.to_u64(), |x| x.to_string()))),
            "toi64" => Some(both(|| opt(a_p.to_i64(), |x| x.to_string()), || opt(a_n.to_i64(), |x| x.to_string()))),
            "tousize" => Some(both(|| opt(a_p.to_usize(), |x| x.to_string()), || opt(a_n.to_usize(), |x| x.to_string()))),
            "fromu64" => Some(both(|| opt(<$P>::from_u64($a as u64), encp), || opt(<$N>::from_u64($a as u64), enc))),
            "fromi64" => Some(both(|| opt(<$P>::from_i64($a as u64 as i64), encp), || opt(<$N>::from_i64($a as u64 as i64), enc))),
            "fromusize" => Some(both(|| opt(<$P>::from_usize($a as usize), encp), || opt(<$N>::from_usize($a as usize), enc))),
            "numcast" => Some(both(|| opt(<$P as NumCast>::from($a as u64), encp), || opt(<$N as NumCast>::from($a as u64), enc))),
            "default" => Some(both(|| encp(<$P>::default()), || enc(<$N>::default()))),
            "display" => Some(both(|| format!("{}/{:?}", a_p, a_p).replace(' ', "_"), || format!("{}/{:?}", a_n, a_n).replace(' ', "_"))),
            "radix" => {
                let s = format!("{}", ($a as u64) % 100000);
                Some(both(|| opt(<$P as Num>::from_str_radix(&s, 10).ok(), encp), || opt(<$N as Num>::from_str_radix(&s, 10).ok(), enc)))
            }
            _ => None,
        }
    }};
}

macro_rules! int_ord {
    ($P:ty, $N:ty, $U:ty, $tb:ident, $op:expr, $a:expr, $b:expr) => {{
        let a_n: $N = ($a as $U) as $N;
        let b_n: $N = ($b as $U) as $N;
        let a_p = <$P as From<$N>>::from(a_n);
        let b_p = <$P as From<$N>>::from(b_n);
        let enc = |x: $N| bytes_to_hex(&x.$tb());
        let encp = |x: $P| bytes_to_hex(&x.to_bytes());
        match $op {
            "cmp" => Some(both(|| format!("{:?}", a_p.cmp(&b_p)), || format!("{:?}", a_n.cmp(&b_n)))),
            "min" => Some(both(|| encp(a_p.min(b_p)), || enc(a_n.min(b_n)))),
            "max" => Some(both(|| encp(a_p.max(b_p)), || enc(a_n.max(b_n)))),
            _ => None,
        }
    }};
}

macro_rules! int_signed {
    ($P:ty, $N:ty, $U:ty, $tb:ident, $op:expr, $a:expr, $b:expr) => {{
        let a_n: $N = ($a as $U) as $N;
        let b_n: $N = ($b as $U) as $N;
        let a_p = <$P as From<$N>>::from(a_n);
        let b_p = <$P as From<$N>>::from(b_n);
        let enc = |x: $N| bytes_to_hex(&x.$tb());
        let encp = |x: $P| bytes_to_hex(&x.to_bytes());
        match $op {
            "neg" => Some(both(|| encp(-a_p), || enc(-a_n))),
            "abs" => Some(both(|| encp(Signed::abs(&a_p)), || enc(Signed::abs(&a_n)))),
            "abssub" => Some(both(|| encp(Signed::abs_sub(&a_p, &b_p)), || enc(Signed::abs_sub(&a_n, &b_n)))),
            "signum" => Some(both(|| encp(Signed::signum(&a_p)), || enc(Signed::signum(&a_n)))),
            "ispos" => Some(both(|| format!("{}", a_p.is_positive()), || format!("{}", Signed::is_positive(&a_n)))),
            "isneg" => Some(both(|| format!("{}", a_p.is_negative()), || format!("{}", Signed::is_negative(&a_n)))),
            _ => None,
        }
    }};
}

macro_rules! float_case {
    ($P:ty, $N:ty, $U:ty, $tb:ident, $op:expr, $a:expr, $b:expr, $raw:expr) => {{
        let a_n: $N = <$N>::from_bits($a as $U);
        let b_n: $N = <$N>::from_bits($b as $U);
        let a_p = <$P as From<$N>>::from(a_n);
        let b_p = <$P as From<$N>>::from(b_n);
        let enc = |x: $N| bytes_to_hex(&x.$tb());
        let encp = |x: $P| bytes_to_hex(&x.to_bytes());
        // the payload of a NaN produced by arithmetic is not specified by IEEE 754 / Rust: compare "is NaN"
        let encn = |x: $N| if x.is_nan() { "nan".to_string() } else { bytes_to_hex(&x.$tb()) };
        let encpn = |x: $P| if <$N as From<$P>>::from(x).is_nan() { "nan".to_string() } else { bytes_to_hex(&x.to_bytes()) };
        match $op {
            "enc" => format!("bytes={} size={} align={}", encp(a_p), size_of::<$P>(), align_of::<$P>()),
            "dec" => {
                let v = hex_to_bytes($raw);
                let p = <$P>::from_bytes(v.as_slice().try_into().unwrap());
                format!("bits={:#x} flatalign={} flatsize={}", <$N as From<$P>>::from(p).to_bits() as u128, <$P as FlatBase>::ALIGN, <$P as FlatSized>::SIZE)
            }
            "roundtrip" => both(|| encp(<$P as From<$N>>::from(<$N as From<$P>>::from(a_p))), || enc(a_n)),
            "add" => both(|| encpn(a_p + b_p), || encn(a_n + b_n)),
            "sub" => both(|| encpn(a_p - b_p), || encn(a_n - b_n)),
            "mul" => both(|| encpn(a_p * b_p), || encn(a_n * b_n)),
            "div" => both(|| encpn(a_p / b_p), || encn(a_n / b_n)),
            "rem" => both(|| encpn(a_p % b_p), || encn(a_n % b_n)),
            "neg" => both(|| encp(-a_p), || enc(-a_n)),
            "addassign" => both(|| { let mut x = a_p; x += b_p; encpn(x) }, || { let mut x = a_n; x += b_n; encn(x) }),
            "mulassign" => both(|| { let mut x = a_p; x *= b_p; encpn(x) }, || { let mut x = a_n; x *= b_n; encn(x) }),
            "subassign" => both(|| { let mut x = a_p; x -= b_p; encpn(x) }, || { let mut x = a_n; x -= b_n; encn(x) }),
            "divassign" => both(|| { let mut x = a_p; x /= b_p; encpn(x) }, || { let mut x = a_n; x /= b_n; encn(x) }),
            "remassign" => both(|| { let mut x = a_p; x %= b_p; encpn(x) }, || { let mut x = a_n; x %= b_n; encn(x) }),
            "numcast" => both(|| opt(<$P as NumCast>::from($a as u64), encp), || opt(<$N as NumCast>::from($a as u64), enc)),
            "numcasti" => both(|| opt(<$P as NumCast>::from($a as u64 as i64), encp), || opt(<$N as NumCast>::from($a as u64 as i64), enc)),
            "radix" => {
                let s = format!("{}.5", ($a as u64) % 100000);
                both(|| opt(<$P as Num>::from_str_radix(&s, 10).ok(), encp), || opt(<$N as Num>::from_str_radix(&s, 10).ok(), enc))
            }
            "pcmp" => both(|| format!("{:?}", a_p.partial_cmp(&b_p)), || format!("{:?}", a_n.partial_cmp(&b_n))),
            "eq" => both(|| format!("{}", a_p == b_p), || format!("{}", a_p.to_bytes() == b_p.to_bytes())),
            "zero" => both(|| encp(<$P>::zero()), || enc(<$N>::zero())),
            "one" => both(|| encp(<$P>::one()), || enc(<$N>::one())),
            "iszero" => both(|| format!("{}", a_p.is_zero()), || format!("{}", a_n.is_zero())),
            "minv" => both(|| encp(<$P as Bounded>::min_value()), || enc(<$N>::MIN)),
            "maxv" => both(|| encp(<$P as Bounded>::max_value()), || enc(<$N>::MAX)),
            "tou64" => both(|| opt(a_p.to_u64(), |x| x.to_string()), || opt(a_n.to_u64(), |x| x.to_string())),
            "toi64" => both(|| opt(a_p.to_i64(), |x| x.to_string()), || opt(a_n.to_i64(), |x| x.to_string())),
            "fromu64" => both(|| opt(<$P>::from_u64($a as u64), encp), || opt(<$N>::from_u64($a as u64), enc)),
            "fromi64" => both(|| opt(<$P>::from_i64($a as u64 as i64), encp), || opt(<$N>::from_i64($a as u64 as i64), enc)),
            "default" => both(|| encp(<$P>::default()), || enc(<$N>::default())),
            "display" => both(|| format!("{}/{:?}", a_p, a_p).replace(' ', "_"), || format!("{}/{:?}", a_n, a_n).replace(' ', "_")),
            other => format!("HARNESS-ERROR unknown float op {}", other),
        }
    }};
}

macro_rules! uint_type {
    ($P:ty, $N:ty, $tb:ident, $op:expr, $a:expr, $b:expr, $raw:expr) => {
        int_common!($P, $N, $N, $tb, $op, $a, $b, $raw)
            .or_else(|| int_ord!($P, $N, $N, $tb, $op, $a, $b))
            .unwrap_or_else(|| format!("HARNESS-ERROR unknown op {}", $op))
    };
}
macro_rules! sint_type {
    ($P:ty, $N:ty, $U:ty, $tb:ident, $op:expr, $a:expr, $b:expr, $raw:expr) => {
        int_common!($P, $N, $U, $tb, $op, $a, $b, $raw)
            .or_else(|| int_ord!($P, $N, $U, $tb, $op, $a, $b))
            .or_else(|| int_signed!($P, $N, $U, $tb, $op, $a, $b))
            .unwrap_or_else(|| format!("HARNESS-ERROR unknown op {}", $op))
    };
}

pub fn run_line(args: &[&str]) -> String {
    let ty = args[0];
    let op = args[1];
    let raw = args.get(2).copied().unwrap_or("0");
    let a: u128 = if op == "dec" || op == "val" { 0 } else { parse_num(raw) };
    let b: u128 = args.get(3).map(|s| parse_num(s)).unwrap_or(0);
    match ty {
        "le::U16" => uint_type!(le::U16, u16, to_le_bytes, op, a, b, raw),
        "le::U32" => uint_type!(le::U32, u32, to_le_bytes, op, a, b, raw),
        "le::U64" => uint_type!(le::U64, u64, to_le_bytes, op, a, b, raw),
        "be::U16" => uint_type!(be::U16, u16, to_be_bytes, op, a, b, raw),
        "be::U32" => uint_type!(be::U32, u32, to_be_bytes, op, a, b, raw),
        "be::U64" => uint_type!(be::U64, u64, to_be_bytes, op, a, b, raw),
        "le::I16" => sint_type!(le::I16, i16, u16, to_le_bytes, op, a, b, raw),
        "le::I32" => sint_type!(le::I32, i32, u32, to_le_bytes, op, a, b, raw),
        "le::I64" => sint_type!(le::I64, i64, u64, to_le_bytes, op, a, b, raw),
        "be::I16" => sint_type!(be::I16, i16, u16, to_be_bytes, op, a, b, raw),
        "be::I32" => sint_type!(be::I32, i32, u32, to_be_bytes, op, a, b, raw),
        "be::I64" => sint_type!(be::I64, i64, u64, to_be_bytes, op, a, b, raw),
        "le::F32" => float_case!(le::F32, f32, u32, to_le_bytes, op, a, b, raw),
        "le::F64" => float_case!(le::F64, f64, u64, to_le_bytes, op, a, b, raw),
        "be::F32" => float_case!(be::F32, f32, u32, to_be_bytes, op, a, b, raw),
        "be::F64" => float_case!(be::F64, f64, u64, to_be_bytes, op, a, b, raw),
        "Bool" => {
            let ab = a & 1 != 0;
            let bb = b & 1 != 0;
            let e = |x: Bool| format!("{:02x}", x as u8);
            match op {
                "enc" => format!("bytes={} size={} align={}", e(Bool::from(ab)), size_of::<Bool>(), align_of::<Bool>()),
                "val" => {
                    let v = hex_to_bytes(raw);
                    match Bool::validate(&v) {
                        Ok(()) => "ok".into(),
                        Err(err) => format!("err:{:?}:{}", err.kind, err.pos),
                    }
                }
                "dec" => {
                    let v = hex_to_bytes(raw);
                    match Bool::from_bytes(&v) {
                        Ok(x) => format!("bits={:#x} flatalign={} flatsize={}", bool::from(*x) as u8, <Bool as FlatBase>::ALIGN, <Bool as FlatSized>::SIZE),
                        Err(_) => "invalid".into(),
                    }
                }
                "not" => both(|| e(!Bool::from(ab)), || e(Bool::from(!ab))),
                "and" => both(|| e(Bool::from(ab) & Bool::from(bb)), || e(Bool::from(ab & bb))),
                "or" => both(|| e(Bool::from(ab) | Bool::from(bb)), || e(Bool::from(ab | bb))),
                "xor" => both(|| e(Bool::from(ab) ^ Bool::from(bb)), || e(Bool::from(ab ^ bb))),
                "andassign" => both(|| { let mut x = Bool::from(ab); x &= Bool::from(bb); e(x) }, || e(Bool::from(ab & bb))),
                "orassign" => both(|| { let mut x = Bool::from(ab); x |= Bool::from(bb); e(x) }, || e(Bool::from(ab | bb))),
                "xorassign" => both(|| { let mut x = Bool::from(ab); x ^= Bool::from(bb); e(x) }, || e(Bool::from(ab ^ bb))),
                "roundtrip" => both(|| e(Bool::from(bool::from(Bool::from(ab)))), || e(Bool::from(ab))),
                "default" => both(|| e(Bool::default()), || e(Bool::from(bool::default()))),
                "eq" => both(|| format!("{}", Bool::from(ab) == Bool::from(bb)), || format!("{}", ab == bb)),
                "cmp" => both(|| format!("{:?}", Bool::from(ab).cmp(&Bool::from(bb))), || format!("{:?}", ab.cmp(&bb))),
                other => format!("HARNESS-ERROR unknown Bool op {}", other),
            }
        }
        other => format!("HARNESS-ERROR unknown portable type {}", other),
    }
}
