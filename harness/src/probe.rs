//! Static part of the probe: deep reads through the public accessors, run-time emplacer
//! specifications, guarded memory, and the generic operations every generated shape supports.
//! Uses only the public API of `flatty`.
#![allow(clippy::all)]

use flatty::{
    flex::{self, FlexVec},
    portable::{be, le, Bool},
    prelude::*,
    string::{self, FlatString},
    vec::{self, FlatVec, Length},
    Emplacer, Error,
};
use std::fmt::Write as _;
use std::panic::{catch_unwind, AssertUnwindSafe};

// ---------------------------------------------------------------- specs

#[derive(Clone, Debug)]
pub enum Spec {
    Int(u128),
    Seq(Vec<Spec>),
    Var(usize, Vec<Spec>),
    VArr(Vec<Spec>),
    VIter(Vec<Spec>),
    Str(Vec<u8>),
    Flex(Vec<Spec>),
    Empty,
    Default,
}

pub fn parse_num(s: &str) -> u128 {
    if let Some(h) = s.strip_prefix("0x") {
        u128::from_str_radix(h, 16).unwrap()
    } else {
        s.parse().unwrap()
    }
}

pub fn hex_to_bytes(s: &str) -> Vec<u8> {
    if s == "-" {
        return Vec::new();
    }
    (0..s.len() / 2).map(|i| u8::from_str_radix(&s[2 * i..2 * i + 2], 16).unwrap()).collect()
}
/// Hex dump of a buffer the library wrote into.  Padding bytes of a `ptr.write` are uninitialised memory for
/// Miri; reading them (as this dump does) would be reported as undefined behaviour of the *harness*.  Under
/// VERIF_NO_RAW=1 (the Miri run of the thorough tier) the dump is suppressed.
pub fn raw_hex(b: &[u8]) -> String {
    static NO_RAW: std::sync::OnceLock<bool> = std::sync::OnceLock::new();
    if *NO_RAW.get_or_init(|| std::env::var_os("VERIF_NO_RAW").is_some()) {
        "-".into()
    } else {
        bytes_to_hex(b)
    }
}

pub fn bytes_to_hex(b: &[u8]) -> String {
    if b.is_empty() {
        return "-".into();
    }
    let mut s = String::with_capacity(b.len() * 2);
    for x in b {
        write!(s, "{:02x}", x).unwrap();
    }
    s
}

pub fn parse_spec(toks: &[String], pos: &mut usize) -> Spec {
    let t = &toks[*pos];
    *pos += 1;
    if t == "(" {
        let head = toks[*pos].clone();
        *pos += 1;
        let mut items = Vec::new();
        let mut atoms = Vec::new();
        loop {
            if toks[*pos] == ")" {
                *pos += 1;
                break;
            }
            if toks[*pos] == "(" || toks[*pos] == "empty" || toks[*pos] == "default" {
                items.push(parse_spec(toks, pos));
            } else {
                atoms.push(toks[*pos].clone());
                *pos += 1;
            }
        }
        match head.as_str() {
            "i" => Spec::Int(parse_num(&atoms[0])),
            "seq" => Spec::Seq(items),
            "var" => Spec::Var(parse_num(&atoms[0]) as usize, items),
            "varr" => Spec::VArr(items),
            "viter" => Spec::VIter(items),
            "str" => Spec::Str(hex_to_bytes(&atoms[0])),
            "flex" => Spec::Flex(items),
            other => panic!("bad spec head {}", other),
        }
    } else if t == "empty" {
        Spec::Empty
    } else if t == "default" {
        Spec::Default
    } else {
        panic!("bad spec token {}", t)
    }
}

pub fn tokenize(s: &str) -> Vec<String> {
    let mut out = Vec::new();
    let mut cur = String::new();
    for c in s.chars() {
        match c {
            '(' | ')' => {
                if !cur.is_empty() {
                    out.push(std::mem::take(&mut cur));
                }
                out.push(c.to_string());
            }
            ' ' | '\t' => {
                if !cur.is_empty() {
                    out.push(std::mem::take(&mut cur));
                }
            }
            c => cur.push(c),
        }
    }
    if !cur.is_empty() {
        out.push(cur);
    }
    out
}

// ---------------------------------------------------------------- deep read

pub static MISALIGNED: std::sync::atomic::AtomicBool = std::sync::atomic::AtomicBool::new(false);

/// records where a reachable reference points (relative to `base`) and whether it is aligned for its type
pub fn note<T: ?Sized>(x: &T, base: usize, o: &mut Vec<(usize, usize)>) {
    let p = x as *const T as *const u8 as usize;
    if p % std::mem::align_of_val(x) != 0 {
        MISALIGNED.store(true, std::sync::atomic::Ordering::SeqCst);
    }
    o.push((p.wrapping_sub(base), std::mem::size_of_val(x)));
}

/// Reads everything reachable through the public accessors and prints it canonically.
pub trait DeepRead {
    fn deep(&self, o: &mut String);
    /// offsets (relative to `base`) of every node in pre-order, with the bytes it may touch
    fn addrs(&self, base: usize, o: &mut Vec<(usize, usize)>) {
        note(self, base, o);
    }
    /// applies an in-place container operation (histories of C11-C14); "bad" when not applicable
    fn hop(&mut self, _op: &HOp) -> String {
        "bad".into()
    }
    /// equality (C11): compares the value with a fresh container of the same contents built in a buffer
    /// of the same size filled with different garbage (must be equal, both ways) and with one whose contents
    /// differ (must not be equal).  None: not a FlatVec / FlatString.
    fn eq_oracle(&self) -> Option<String> {
        None
    }
    /// FlexVec::push_default for item types that implement FlatDefault (None: not available)
    fn push_default_to<L: Flat + Length>(_v: &mut FlexVec<Self, L>) -> Option<Result<(), Error>>
    where
        Self: Flat,
    {
        None
    }
}

/// In-place operations of the history suites.
#[derive(Clone, Debug)]
pub enum HOp {
    Push(Spec),
    Pop,
    PushSlice(Vec<Spec>),
    Extend(Vec<Spec>),
    Truncate(usize),
    Clear,
    Remove(usize),
    SwapRemove(usize),
    Resize(usize, Spec),
    Set(usize, Spec),
    PushStr(Vec<u8>),
    PushChar(u32),
    EditVec(usize, Box<HOp>),
    EditAssign(usize, Spec),
}

pub fn parse_hop(toks: &[String], pos: &mut usize) -> HOp {
    assert_eq!(toks[*pos], "(");
    *pos += 1;
    let head = toks[*pos].clone();
    *pos += 1;
    let num = |toks: &[String], pos: &mut usize| -> usize {
        let v = parse_num(&toks[*pos]) as usize;
        *pos += 1;
        v
    };
    let specs = |toks: &[String], pos: &mut usize| -> Vec<Spec> {
        let mut v = Vec::new();
        while toks[*pos] != ")" {
            v.push(parse_spec(toks, pos));
        }
        v
    };
    let op = match head.as_str() {
        "push" => HOp::Push(parse_spec(toks, pos)),
        "pop" => HOp::Pop,
        "pushslice" => HOp::PushSlice(specs(toks, pos)),
        "extend" => HOp::Extend(specs(toks, pos)),
        "truncate" => HOp::Truncate(num(toks, pos)),
        "clear" => HOp::Clear,
        "remove" => HOp::Remove(num(toks, pos)),
        "swapremove" => HOp::SwapRemove(num(toks, pos)),
        "resize" => {
            let n = num(toks, pos);
            HOp::Resize(n, parse_spec(toks, pos))
        }
        "set" => {
            let n = num(toks, pos);
            HOp::Set(n, parse_spec(toks, pos))
        }
        "pushstr" => {
            let h = toks[*pos].clone();
            *pos += 1;
            HOp::PushStr(hex_to_bytes(&h))
        }
        "pushchar" => HOp::PushChar(num(toks, pos) as u32),
        "editvec" | "editflex" => {
            let n = num(toks, pos);
            HOp::EditVec(n, Box::new(parse_hop(toks, pos)))
        }
        "editassign" => {
            let n = num(toks, pos);
            HOp::EditAssign(n, parse_spec(toks, pos))
        }
        other => panic!("bad op {}", other),
    };
    assert_eq!(toks[*pos], ")");
    *pos += 1;
    op
}

/// Construction of a sized value from a spec.
pub trait FromSpec: Sized {
    fn from_spec(s: &Spec) -> Self;
}

macro_rules! impl_prim {
    ($t:ty, $u:ty) => {
        impl DeepRead for $t {
            fn deep(&self, o: &mut String) {
                write!(o, "{:#x}", (*self as $u) as u128).unwrap();
            }
            fn push_default_to<L2: Flat + Length>(v: &mut FlexVec<Self, L2>) -> Option<Result<(), Error>> {
                Some(v.push_default().map(|_| ()))
            }
        }
        impl FromSpec for $t {
            fn from_spec(s: &Spec) -> Self {
                match s {
                    Spec::Int(v) => (*v as $u) as $t,
                    Spec::Default => <$t>::default(),
                    _ => panic!("bad spec for prim"),
                }
            }
        }
        impl_dyn_sized!($t);
    };
}
macro_rules! impl_float {
    ($t:ty, $u:ty) => {
        impl DeepRead for $t {
            fn deep(&self, o: &mut String) {
                write!(o, "{:#x}", self.to_bits() as u128).unwrap();
            }
        }
        impl FromSpec for $t {
            fn from_spec(s: &Spec) -> Self {
                match s {
                    Spec::Int(v) => <$t>::from_bits(*v as $u),
                    Spec::Default => <$t>::default(),
                    _ => panic!("bad spec for float"),
                }
            }
        }
        impl_dyn_sized!($t);
    };
}
macro_rules! impl_pint {
    ($t:ty, $n:ty, $u:ty) => {
        impl DeepRead for $t {
            fn deep(&self, o: &mut String) {
                write!(o, "{:#x}", (<$n>::from(*self) as $u) as u128).unwrap();
            }
        }
        impl FromSpec for $t {
            fn from_spec(s: &Spec) -> Self {
                match s {
                    Spec::Int(v) => <$t>::from((*v as $u) as $n),
                    Spec::Default => <$t>::default(),
                    _ => panic!("bad spec for portable int"),
                }
            }
        }
        impl_dyn_sized!($t);
    };
}
macro_rules! impl_pfloat {
    ($t:ty, $n:ty, $u:ty) => {
        impl DeepRead for $t {
            fn deep(&self, o: &mut String) {
                write!(o, "{:#x}", <$n>::from(*self).to_bits() as u128).unwrap();
            }
        }
        impl FromSpec for $t {
            fn from_spec(s: &Spec) -> Self {
                match s {
                    Spec::Int(v) => <$t>::from(<$n>::from_bits(*v as $u)),
                    Spec::Default => <$t>::default(),
                    _ => panic!("bad spec for portable float"),
                }
            }
        }
        impl_dyn_sized!($t);
    };
}

/// An iterator that hides the length of the one it wraps.
pub struct NoHint<I>(pub I);
impl<I: Iterator> Iterator for NoHint<I> {
    type Item = I::Item;
    fn next(&mut self) -> Option<I::Item> {
        self.0.next()
    }
}

/// `Dyn(spec)` is an emplacer for every probed type: it builds the library's own emplacer
/// (literal, `*Init`, `FromArray`, `FromIterator`, `FromStr`, default emplacer) from the spec.
pub struct Dyn<'a>(pub &'a Spec);

#[macro_export]
macro_rules! impl_dyn_sized {
    ($t:ty) => {
        unsafe impl<'a> ::flatty::Emplacer<$t> for $crate::probe::Dyn<'a> {
            unsafe fn emplace_unchecked(self, bytes: &mut [u8]) -> Result<&mut $t, ::flatty::Error> {
                <$t as $crate::probe::FromSpec>::from_spec(self.0).emplace_unchecked(bytes)
            }
            // the checked entry point of the library's own emplacer (not the trait's default)
            fn emplace(self, bytes: &mut [u8]) -> Result<&mut $t, ::flatty::Error> {
                <$t as $crate::probe::FromSpec>::from_spec(self.0).emplace(bytes)
            }
        }
    };
}
pub use impl_dyn_sized;

impl_prim!(u8, u8);
impl_prim!(u16, u16);
impl_prim!(u32, u32);
impl_prim!(u64, u64);
impl_prim!(u128, u128);
impl_prim!(usize, usize);
impl_prim!(i8, u8);
impl_prim!(i16, u16);
impl_prim!(i32, u32);
impl_prim!(i64, u64);
impl_prim!(i128, u128);
impl_prim!(isize, usize);
impl_float!(f32, u32);
impl_float!(f64, u64);
impl_pint!(le::U16, u16, u16);
impl_pint!(le::U32, u32, u32);
impl_pint!(le::U64, u64, u64);
impl_pint!(le::I16, i16, u16);
impl_pint!(le::I32, i32, u32);
impl_pint!(le::I64, i64, u64);
impl_pint!(be::U16, u16, u16);
impl_pint!(be::U32, u32, u32);
impl_pint!(be::U64, u64, u64);
impl_pint!(be::I16, i16, u16);
impl_pint!(be::I32, i32, u32);
impl_pint!(be::I64, i64, u64);
impl_pfloat!(le::F32, f32, u32);
impl_pfloat!(le::F64, f64, u64);
impl_pfloat!(be::F32, f32, u32);
impl_pfloat!(be::F64, f64, u64);

impl DeepRead for () {
    fn deep(&self, o: &mut String) {
        o.push_str("(n0)");
    }
}
impl FromSpec for () {
    fn from_spec(_: &Spec) -> Self {}
}
impl_dyn_sized!(());

impl DeepRead for Bool {
    fn deep(&self, o: &mut String) {
        write!(o, "{:#x}", bool::from(*self) as u8).unwrap();
    }
}
impl FromSpec for Bool {
    fn from_spec(s: &Spec) -> Self {
        match s {
            Spec::Int(v) => Bool::from(*v != 0),
            Spec::Default => Bool::default(),
            _ => panic!("bad spec for Bool"),
        }
    }
}
impl_dyn_sized!(Bool);

impl<T: DeepRead, const N: usize> DeepRead for [T; N] {
    fn deep(&self, o: &mut String) {
        o.push_str("(n0");
        for x in self.iter() {
            o.push(' ');
            x.deep(o);
        }
        o.push(')');
    }
    fn addrs(&self, base: usize, o: &mut Vec<(usize, usize)>) {
        note(self, base, o);
        for x in self.iter() {
            x.addrs(base, o);
        }
    }
}
impl<T: FromSpec, const N: usize> FromSpec for [T; N] {
    fn from_spec(s: &Spec) -> Self {
        match s {
            Spec::Seq(v) => {
                assert_eq!(v.len(), N);
                core::array::from_fn(|i| T::from_spec(&v[i]))
            }
            Spec::Default => core::array::from_fn(|_| T::from_spec(&Spec::Default)),
            _ => panic!("bad spec for array"),
        }
    }
}
unsafe impl<'a, T: FromSpec + Flat, const N: usize> Emplacer<[T; N]> for Dyn<'a> {
    unsafe fn emplace_unchecked(self, bytes: &mut [u8]) -> Result<&mut [T; N], Error> {
        <[T; N] as FromSpec>::from_spec(self.0).emplace_unchecked(bytes)
    }
    fn emplace(self, bytes: &mut [u8]) -> Result<&mut [T; N], Error> {
        <[T; N] as FromSpec>::from_spec(self.0).emplace(bytes)
    }
}

impl<T: DeepRead + FromSpec + Clone + PartialEq + Flat + Sized, L: Flat + Length> DeepRead for FlatVec<T, L> {
    fn eq_oracle(&self) -> Option<String> {
        let n = self.as_bytes().len();
        let mut a = Arena::new(0, &vec![0xeeu8; n], 0x11);
        let fresh = match FlatVec::<T, L>::new_in_place(a.slice_mut(), vec::FromIterator(self.as_slice().iter().cloned())) {
            Ok(f) => f,
            Err(e) => return Some(format!("rebuild:{:?}", e.kind)),
        };
        if !(*fresh == *self && *self == *fresh) {
            return Some("equal-contents-compare-unequal".into());
        }
        if fresh.pop().is_some() && (*fresh == *self || *self == *fresh) {
            return Some("different-contents-compare-equal".into());
        }
        Some("ok".into())
    }
    fn push_default_to<L2: Flat + Length>(v: &mut FlexVec<Self, L2>) -> Option<Result<(), Error>> {
        Some(v.push_default().map(|_| ()))
    }
    fn deep(&self, o: &mut String) {
        write!(o, "(c{:#x}", self.capacity()).unwrap();
        let len = self.len();
        let s = self.as_slice();
        assert_eq!(s.len(), len);
        for x in s.iter() {
            o.push(' ');
            x.deep(o);
        }
        o.push(')');
    }
    fn addrs(&self, base: usize, o: &mut Vec<(usize, usize)>) {
        note(self, base, o);
        for x in self.as_slice().iter() {
            x.addrs(base, o);
        }
    }
    fn hop(&mut self, op: &HOp) -> String {
        let done = |b: bool| if b { "done".to_string() } else { "refused".to_string() };
        match op {
            HOp::Push(s) => done(self.push(T::from_spec(s)).is_ok()),
            HOp::Pop => done(self.pop().is_some()),
            HOp::PushSlice(v) => {
                let items: Vec<T> = v.iter().map(T::from_spec).collect();
                done(self.push_slice(&items).is_ok())
            }
            HOp::Extend(v) => {
                self.extend_until_full(v.iter().map(T::from_spec));
                done(true)
            }
            HOp::Truncate(n) => {
                self.truncate(*n);
                done(true)
            }
            HOp::Clear => {
                self.clear();
                done(true)
            }
            HOp::Remove(i) => {
                self.remove(*i);
                done(true)
            }
            HOp::SwapRemove(i) => {
                self.swap_remove(*i);
                done(true)
            }
            HOp::Resize(n, s) => {
                self.resize(*n, T::from_spec(s));
                done(true)
            }
            HOp::Set(i, s) => {
                self[*i] = T::from_spec(s);
                done(true)
            }
            _ => "bad".into(),
        }
    }
}
macro_rules! dyn_vec_body {
    ($s:ident, $b:ident, $m:ident) => {
        match $s {
            Spec::Empty => vec::Empty.$m($b),
            Spec::Default => <FlatVec<T, L> as FlatDefault>::default_emplacer().$m($b),
            // lists of odd length come from an iterator that does not know its length (size_hint = (0, None), as
            // `filter` or `from_fn` give), the others from an exact-size one
            Spec::VIter(v) if v.len() % 2 == 1 => vec::FromIterator(NoHint(v.iter().map(T::from_spec))).$m($b),
            Spec::VIter(v) => vec::FromIterator(v.iter().map(T::from_spec)).$m($b),
            Spec::VArr(v) => {
                let f = |i: usize| T::from_spec(&v[i]);
                match v.len() {
                    0 => vec::FromArray::<T, 0>([]).$m($b),
                    1 => vec::FromArray([f(0)]).$m($b),
                    2 => vec::FromArray([f(0), f(1)]).$m($b),
                    3 => vec::FromArray([f(0), f(1), f(2)]).$m($b),
                    4 => vec::FromArray([f(0), f(1), f(2), f(3)]).$m($b),
                    5 => vec::FromArray([f(0), f(1), f(2), f(3), f(4)]).$m($b),
                    6 => vec::FromArray([f(0), f(1), f(2), f(3), f(4), f(5)]).$m($b),
                    7 => vec::FromArray([f(0), f(1), f(2), f(3), f(4), f(5), f(6)]).$m($b),
                    8 => vec::FromArray([f(0), f(1), f(2), f(3), f(4), f(5), f(6), f(7)]).$m($b),
                    255 => vec::FromArray::<T, 255>(core::array::from_fn(|i| f(i))).$m($b),
                    256 => vec::FromArray::<T, 256>(core::array::from_fn(|i| f(i))).$m($b),
                    300 => vec::FromArray::<T, 300>(core::array::from_fn(|i| f(i))).$m($b),
                    n => panic!("FromArray of {} not instantiated", n),
                }
            }
            _ => panic!("bad spec for FlatVec"),
        }
    };
}
unsafe impl<'a, T: FromSpec + Flat + Sized, L: Flat + Length> Emplacer<FlatVec<T, L>> for Dyn<'a> {
    unsafe fn emplace_unchecked(self, b: &mut [u8]) -> Result<&mut FlatVec<T, L>, Error> {
        let s = self.0;
        dyn_vec_body!(s, b, emplace_unchecked)
    }
    // the checked entry point of the library's own emplacer (not the trait's default)
    fn emplace(self, b: &mut [u8]) -> Result<&mut FlatVec<T, L>, Error> {
        let s = self.0;
        #[allow(unused_unsafe)]
        unsafe {
            dyn_vec_body!(s, b, emplace)
        }
    }
}

impl<L: Flat + Length> DeepRead for FlatString<L> {
    fn eq_oracle(&self) -> Option<String> {
        let n = self.as_bytes().len();
        let mut a = Arena::new(0, &vec![0xeeu8; n], 0x11);
        let fresh = match FlatString::<L>::new_in_place(a.slice_mut(), string::FromStr(self.as_str())) {
            Ok(f) => f,
            Err(e) => return Some(format!("rebuild:{:?}", e.kind)),
        };
        if !(*fresh == *self && *self == *fresh) {
            return Some("equal-contents-compare-unequal".into());
        }
        let changed = if fresh.len() > 0 {
            fresh.clear();
            true
        } else {
            fresh.push('x').is_ok()
        };
        if changed && (*fresh == *self || *self == *fresh) {
            return Some("different-contents-compare-equal".into());
        }
        Some("ok".into())
    }
    fn push_default_to<L2: Flat + Length>(v: &mut FlexVec<Self, L2>) -> Option<Result<(), Error>> {
        Some(v.push_default().map(|_| ()))
    }
    fn deep(&self, o: &mut String) {
        write!(o, "(c{:#x}", self.capacity()).unwrap();
        let s = self.as_str();
        assert_eq!(s.len(), self.len());
        for x in s.as_bytes() {
            write!(o, " {:#x}", x).unwrap();
        }
        // C02: an accepted FlatString hands out a &str; core's own decoder is the reference for "is a str"
        if core::str::from_utf8(s.as_bytes()).is_err() {
            o.push_str(" !notutf8");
        }
        o.push(')');
    }
    fn hop(&mut self, op: &HOp) -> String {
        let done = |b: bool| if b { "done".to_string() } else { "refused".to_string() };
        match op {
            HOp::PushStr(s) => done(self.push_str(core::str::from_utf8(s).unwrap()).is_ok()),
            HOp::PushChar(c) => done(self.push(char::from_u32(*c).unwrap()).is_ok()),
            HOp::Clear => {
                self.clear();
                done(true)
            }
            _ => "bad".into(),
        }
    }
}
macro_rules! dyn_str_body {
    ($s:ident, $b:ident, $m:ident) => {
        match $s {
            Spec::Empty => string::Empty.$m($b),
            Spec::Default => <FlatString<L> as FlatDefault>::default_emplacer().$m($b),
            Spec::Str(s) => string::FromStr(core::str::from_utf8(s).unwrap()).$m($b),
            _ => panic!("bad spec for FlatString"),
        }
    };
}
unsafe impl<'a, L: Flat + Length> Emplacer<FlatString<L>> for Dyn<'a> {
    unsafe fn emplace_unchecked(self, b: &mut [u8]) -> Result<&mut FlatString<L>, Error> {
        let s = self.0;
        dyn_str_body!(s, b, emplace_unchecked)
    }
    // the checked entry point of the library's own emplacer (not the trait's default)
    fn emplace(self, b: &mut [u8]) -> Result<&mut FlatString<L>, Error> {
        let s = self.0;
        #[allow(unused_unsafe)]
        unsafe {
            dyn_str_body!(s, b, emplace)
        }
    }
}

impl<T: DeepRead + Flat + ?Sized, L: Flat + Length> DeepRead for FlexVec<T, L>
where
    for<'b> Dyn<'b>: Emplacer<T>,
{
    fn deep(&self, o: &mut String) {
        o.push_str("(n0");
        let mut n = 0;
        for x in self.iter() {
            o.push(' ');
            x.deep(o);
            n += 1;
        }
        assert_eq!(n, self.len());
        assert_eq!(n == 0, self.is_empty());
        o.push(')');
    }
    fn addrs(&self, base: usize, o: &mut Vec<(usize, usize)>) {
        note(self, base, o);
        for x in self.iter() {
            x.addrs(base, o);
        }
    }
    fn hop(&mut self, op: &HOp) -> String {
        match op {
            // (push default) goes through FlexVec::push_default where the item type has a FlatDefault impl
            HOp::Push(s) => match (if matches!(s, Spec::Default) { T::push_default_to(self) } else { None })
                .unwrap_or_else(|| self.push(Dyn(s)).map(|_| ()))
            {
                Ok(_) => "done".into(),
                Err(e) => format!("err:{:?}", e.kind),
            },
            HOp::Pop => match self.pop() {
                Ok(()) => "done".into(),
                Err(_) => "refused".into(),
            },
            HOp::Truncate(n) => {
                self.truncate(*n);
                "done".into()
            }
            HOp::Clear => {
                self.clear();
                "done".into()
            }
            HOp::EditVec(i, inner) => match self.iter_mut().nth(*i) {
                Some(x) => x.hop(inner),
                None => panic!("no such item"),
            },
            HOp::EditAssign(i, s) => match self.iter_mut().nth(*i) {
                Some(x) => match x.assign_in_place(Dyn(s)) {
                    Ok(_) => "done".into(),
                    Err(e) => format!("err:{:?}", e.kind),
                },
                None => panic!("no such item"),
            },
            _ => "bad".into(),
        }
    }
}
macro_rules! dyn_flex_body {
    ($s:ident, $b:ident, $m:ident) => {
        match $s {
            Spec::Empty => flex::Empty.$m($b),
            Spec::Default => <FlexVec<T, L> as FlatDefault>::default_emplacer().$m($b),
            Spec::Flex(v) if v.len() % 2 == 1 => flex::FromIterator::new(NoHint(v.iter().map(Dyn))).$m($b),
            Spec::Flex(v) => flex::FromIterator::new(v.iter().map(Dyn)).$m($b),
            _ => panic!("bad spec for FlexVec"),
        }
    };
}
unsafe impl<'a, T: Flat + ?Sized, L: Flat + Length> Emplacer<FlexVec<T, L>> for Dyn<'a>
where
    for<'b> Dyn<'b>: Emplacer<T>,
{
    unsafe fn emplace_unchecked(self, b: &mut [u8]) -> Result<&mut FlexVec<T, L>, Error> {
        let s = self.0;
        dyn_flex_body!(s, b, emplace_unchecked)
    }
    // the checked entry point of the library's own emplacer (not the trait's default)
    fn emplace(self, b: &mut [u8]) -> Result<&mut FlexVec<T, L>, Error> {
        let s = self.0;
        #[allow(unused_unsafe)]
        unsafe {
            dyn_flex_body!(s, b, emplace)
        }
    }
}

// ---------------------------------------------------------------- guarded memory

pub const GUARD: usize = 64;

/// A slice of the requested length at the requested address offset (mod 64), inside a larger
/// allocation whose other bytes hold a known pattern.
pub struct Arena {
    mem: Vec<u8>,
    start: usize,
    len: usize,
    fill: u8,
}

impl Arena {
    pub fn new(off: usize, bytes: &[u8], fill: u8) -> Self {
        let total = bytes.len() + 2 * GUARD + 64 + off;
        let mut mem = vec![fill; total];
        let base = mem.as_ptr() as usize;
        let aligned = (base + 63) / 64 * 64;
        let start = aligned - base + GUARD + off;
        mem[start..start + bytes.len()].copy_from_slice(bytes);
        Arena {
            mem,
            start,
            len: bytes.len(),
            fill,
        }
    }
    pub fn slice(&self) -> &[u8] {
        &self.mem[self.start..self.start + self.len]
    }
    pub fn slice_mut(&mut self) -> &mut [u8] {
        &mut self.mem[self.start..self.start + self.len]
    }
    pub fn base(&self) -> usize {
        self.mem.as_ptr() as usize + self.start
    }
    /// true when every byte outside the slice still holds the fill pattern
    pub fn guards_intact(&self) -> bool {
        self.mem[..self.start].iter().all(|b| *b == self.fill)
            && self.mem[self.start + self.len..].iter().all(|b| *b == self.fill)
    }
}

pub fn kind_s(e: &Error) -> String {
    format!("err:{:?}:{}", e.kind, e.pos)
}
pub fn res_s(r: &Result<(), Error>) -> String {
    match r {
        Ok(()) => "ok".into(),
        Err(e) => kind_s(e),
    }
}

/// Runs `f`, turning a panic into the string "panic".
pub fn guarded<F: FnOnce() -> String>(f: F) -> String {
    match catch_unwind(AssertUnwindSafe(f)) {
        Ok(s) => s,
        Err(_) => "panic".into(),
    }
}

// ---------------------------------------------------------------- generic operations

/// Implemented (by the generator) for every top-level shape.
pub trait Probe: Flat + DeepRead {
    const STATIC_SIZE: Option<usize>;
    /// `Self::default_in_place(bytes)` when the type has a default.
    fn dflt(bytes: &mut [u8]) -> Option<Result<(), Error>>;
    /// `FlatWrap::<Self, &mut [u8]>::default_in_place(bytes)` when the type has a default.
    fn wrap_dflt(bytes: &mut [u8]) -> Option<Result<(), Error>>;
    /// `UninitSendGuard::default_in_place` (blocking / async) when the type has a default; `Err(g)` hands the
    /// guard back when it has none.
    #[allow(clippy::type_complexity)]
    fn send_dflt_b<'a, B: flatty_io::blocking::WriteBuffer + 'a>(
        g: flatty_io::blocking::UninitSendGuard<'a, Self, B>,
    ) -> Result<Result<flatty_io::blocking::SendGuard<'a, Self, B>, Error>, flatty_io::blocking::UninitSendGuard<'a, Self, B>>;
    #[allow(clippy::type_complexity)]
    fn send_dflt_a<'a, B: flatty_io::async_::AsyncWriteBuffer + 'a>(
        g: flatty_io::async_::UninitSendGuard<'a, Self, B>,
    ) -> Result<Result<flatty_io::async_::SendGuard<'a, Self, B>, Error>, flatty_io::async_::UninitSendGuard<'a, Self, B>>;
}

pub trait Ops {
    fn layout(&self) -> String;
    fn validate(&self, off: usize, bytes: &[u8]) -> String;
    fn map(&self, off: usize, bytes: &[u8]) -> String;
    fn emplace(&self, off: usize, bytes: &[u8], spec: &Spec) -> String;
    fn assign(&self, off: usize, bytes: &[u8], spec: &Spec) -> String;
    fn default(&self, off: usize, bytes: &[u8]) -> String;
    /// IO suite (`io_suite.rs`): `kind` is recv / send / arecv / asend / sys
    fn io(&self, kind: &str, args: &[&str]) -> String;
    fn hist(&self, off: usize, bytes: &[u8], init: &Spec, ops: &[HOp]) -> String;
}

pub struct TypeOps<T: ?Sized>(pub core::marker::PhantomData<fn(&T)>);

fn deep_s<T: DeepRead + ?Sized>(x: &T) -> String {
    guarded(|| {
        let mut s = String::from("ok:");
        x.deep(&mut s);
        s
    })
}

/// the observations of a mapped value
fn map_obs<T: Probe + ?Sized>(arena: &Arena) -> String {
    let bytes = arena.slice();
    let mut o = String::new();
    let x = match T::from_bytes(bytes) {
        Ok(x) => x,
        Err(e) => return format!(" from_bytes-disagrees-with-validate:{}", kind_s(&e)),
    };
    let view = deep_s(x);
    write!(o, " view={}", view).unwrap();
    // every container reports len <= capacity: the deep read prints capacities; checked by the comparer
    let size = guarded(|| format!("ok:{}", x.size()));
    write!(o, " size={}", size).unwrap();
    let ab = guarded(|| format!("ok:{}", x.as_bytes().len()));
    write!(o, " blen={}", ab).unwrap();
    // as_bytes round trip
    let rt = guarded(|| {
        let ab = x.as_bytes();
        if ab.as_ptr() != bytes.as_ptr() || ab.len() > bytes.len() {
            return "as_bytes-outside-slice".into();
        }
        match T::from_bytes(ab) {
            Ok(y) => format!("ok rtview={}", if deep_s(y) == view { "same" } else { "diff" }),
            Err(e) => format!("{} rtview=-", kind_s(&e)),
        }
    });
    write!(o, " rt={}", rt).unwrap();
    // truncate to size()
    let tv = guarded(|| {
        let n = x.size();
        if n > bytes.len() {
            return "- tview=- tsize=-".into();
        }
        match T::from_bytes(&bytes[..n]) {
            Ok(y) => format!(
                "ok tview={} tsize=ok:{}",
                if strip_caps(&deep_s(y)) == strip_caps(&view) { "same" } else { "diff" },
                y.size()
            ),
            Err(e) => format!("{} tview=- tsize=-", kind_s(&e)),
        }
    });
    write!(o, " tv={}", tv).unwrap();
    // compiler's view of the mapped value
    write!(o, " sov={} aov={}", std::mem::size_of_val(x), std::mem::align_of_val(x)).unwrap();
    // everything reachable lies inside the slice
    let inside = guarded(|| {
        let mut v = Vec::new();
        MISALIGNED.store(false, std::sync::atomic::Ordering::SeqCst);
        x.addrs(arena.base(), &mut v);
        let mut s = String::new();
        let mut ok = true;
        for (off, len) in v.iter() {
            if off.checked_add(*len).map_or(true, |e| e > bytes.len()) {
                ok = false;
            }
            write!(s, "{}+{},", off, len).unwrap();
        }
        let mis = MISALIGNED.load(std::sync::atomic::Ordering::SeqCst);
        format!("{} addrs={}", if mis { "MISALIGNED" } else if ok { "ok" } else { "OUTSIDE" }, s)
    });
    write!(o, " inside={}", inside).unwrap();
    o
}

/// removes capacities "(c0x12 " -> "(c " from a printed value
pub fn strip_caps(s: &str) -> String {
    let mut out = String::with_capacity(s.len());
    let b = s.as_bytes();
    let mut i = 0;
    while i < b.len() {
        if b[i] == b'(' && i + 1 < b.len() && b[i + 1] == b'c' {
            out.push_str("(c");
            i += 2;
            while i < b.len() && b[i] != b' ' && b[i] != b')' {
                i += 1;
            }
        } else {
            out.push(b[i] as char);
            i += 1;
        }
    }
    out
}

fn after_emplace<T: Probe + ?Sized>(arena: &Arena, r: Result<(), Error>) -> String {
    let bytes = arena.slice();
    let mut o = res_s(&r);
    write!(o, " buf={}", raw_hex(bytes)).unwrap();
    let val = guarded(|| res_s(&T::validate(bytes)));
    write!(o, " val={}", val).unwrap();
    if val == "ok" {
        let x = unsafe { T::from_bytes_unchecked(bytes) };
        write!(o, " view={}", deep_s(x)).unwrap();
        write!(o, " size={}", guarded(|| format!("ok:{}", x.size()))).unwrap();
    } else {
        o.push_str(" view=- size=-");
    }
    o
}

/// Runs a read-only observation twice with different bytes outside the slice; the result must not
/// depend on them.  Also checks that nothing outside the slice was written.
fn dual<F: Fn(&Arena) -> String>(off: usize, bytes: &[u8], f: F) -> String {
    let a1 = Arena::new(off, bytes, 0x55);
    let r1 = guarded(|| f(&a1));
    let a2 = Arena::new(off, bytes, 0xAA);
    let r2 = guarded(|| f(&a2));
    let mut r = r1.clone();
    // addresses are relative, so both runs must print the same thing
    if r1 != r2 {
        r.push_str(" OUTSIDE-READ");
    }
    if !a1.guards_intact() || !a2.guards_intact() || a1.slice() != bytes || a2.slice() != bytes {
        r.push_str(" OOB-WRITE");
    }
    r
}

fn dual_mut<F: Fn(&mut Arena) -> String>(off: usize, bytes: &[u8], f: F) -> String {
    let mut a1 = Arena::new(off, bytes, 0x55);
    let r1 = guarded(|| f(&mut a1));
    let mut a2 = Arena::new(off, bytes, 0xAA);
    let r2 = guarded(|| f(&mut a2));
    let mut r = r1.clone();
    // padding bytes written by ptr.write are unspecified and differ from run to run: the buffer
    // itself is not part of the dual comparison
    if strip_key(&r1, "buf") != strip_key(&r2, "buf") {
        r.push_str(" OUTSIDE-READ");
    }
    if !a1.guards_intact() || !a2.guards_intact() {
        r.push_str(" OOB-WRITE");
    }
    r
}

fn strip_key(s: &str, key: &str) -> String {
    let pat = format!(" {}=", key);
    match s.find(&pat) {
        None => s.to_string(),
        Some(i) => {
            let rest = &s[i + pat.len()..];
            let end = rest.find(' ').map_or(rest.len(), |e| e);
            format!("{}{}", &s[..i], &rest[end..])
        }
    }
}

impl<T: Probe + ?Sized> Ops for TypeOps<T>
where
    for<'b> Dyn<'b>: Emplacer<T>,
{
    fn layout(&self) -> String {
        // AlignedBytes (the allocation behind the IO buffers and the usual owner of a mapped value): the
        // requested length, the requested alignment, contents copied by from_slice
        let abytes = guarded(|| {
            for n in [0usize, 1, T::MIN_SIZE, T::MIN_SIZE + 1, 3 * T::MIN_SIZE + 7] {
                let a = ::flatty::AlignedBytes::new(n, T::ALIGN);
                if a.len() != n || (a.as_ptr() as usize) % T::ALIGN != 0 || a.layout().size() != n || a.layout().align() != T::ALIGN {
                    return format!("BAD-NEW:{}", n);
                }
                let src: Vec<u8> = (0..n).map(|i| (i * 7 + 3) as u8).collect();
                let mut b = ::flatty::AlignedBytes::from_slice(&src, T::ALIGN);
                if &b[..] != &src[..] || (b.as_ptr() as usize) % T::ALIGN != 0 || b.as_mut().len() != n {
                    return format!("BAD-FROM-SLICE:{}", n);
                }
            }
            "ok".into()
        });
        format!(
            "align={} min={} size={} abytes={}",
            T::ALIGN,
            T::MIN_SIZE,
            match T::STATIC_SIZE {
                Some(s) => s.to_string(),
                None => "-".into(),
            },
            abytes
        )
    }
    fn validate(&self, off: usize, bytes: &[u8]) -> String {
        dual(off, bytes, |a| res_s(&T::validate(a.slice())))
    }
    fn map(&self, off: usize, bytes: &[u8]) -> String {
        dual(off, bytes, |a| {
            let r = T::validate(a.slice());
            let mut s = res_s(&r);
            if r.is_ok() {
                s.push_str(&map_obs::<T>(a));
            }
            // the other entry points of the same check: FlatWrap::from_wrapped_bytes and from_mut_bytes
            let w = guarded(|| {
                let wr = ::flatty::FlatWrap::<T, &[u8]>::from_wrapped_bytes(a.slice());
                let same_kind = res_s(&wr.as_ref().map(|_| ()).map_err(|e| e.clone())) == res_s(&r);
                let same_view = match &wr {
                    Ok(w) => deep_s(&**w) == deep_s(unsafe { T::from_bytes_unchecked(a.slice()) }),
                    Err(_) => true,
                };
                let mut copy = Arena::new(off, a.slice(), 0x33);
                let mr = T::from_mut_bytes(copy.slice_mut()).map(|_| ());
                let same_mut = res_s(&mr) == res_s(&r);
                if same_kind && same_view && same_mut { "same".to_string() } else { format!("DIFF:{}:{}:{}", same_kind, same_view, same_mut) }
            });
            write!(s, " wrap={}", w).unwrap();
            s
        })
    }
    fn emplace(&self, off: usize, bytes: &[u8], spec: &Spec) -> String {
        let mut out = dual_mut(off, bytes, |a| {
            let r = T::new_in_place(a.slice_mut(), Dyn(spec)).map(|_| ());
            after_emplace::<T>(a, r)
        });
        // FlatWrap::new_in_place must do exactly what new_in_place does
        let w = guarded(|| {
            let mut b = Arena::new(off, bytes, 0x55);
            let r1 = res_s(&::flatty::FlatWrap::<T, &mut [u8]>::new_in_place(b.slice_mut(), Dyn(spec)).map(|_| ()));
            let mut c = Arena::new(off, bytes, 0x55);
            let r2 = res_s(&T::new_in_place(c.slice_mut(), Dyn(spec)).map(|_| ()));
            let v1 = res_s(&T::validate(b.slice()));
            let v2 = res_s(&T::validate(c.slice()));
            // the wrapper derefs (shared and mutable) to the value it constructed, and into_inner gives the
            // buffer back
            let mut views = true;
            let mut d = Arena::new(off, bytes, 0x55);
            if let Ok(mut w) = ::flatty::FlatWrap::<T, &mut [u8]>::new_in_place(d.slice_mut(), Dyn(spec)) {
                let direct = deep_s(unsafe { T::from_bytes_unchecked(c.slice()) });
                views = deep_s(&*w) == direct && deep_s(&*(&mut *w)) == direct && (&mut *w).size() == (*w).size();
                let inner: &mut [u8] = w.into_inner();
                views = views && inner.len() == c.slice().len();
            }
            if r1 == r2 && v1 == v2 && views && b.guards_intact() && d.guards_intact() {
                "same".to_string()
            } else {
                format!("DIFF:{}:{}:{}:{}:{}", r1, r2, v1, v2, views)
            }
        });
        write!(out, " wrap={}", w).unwrap();
        out
    }
    fn assign(&self, off: usize, bytes: &[u8], spec: &Spec) -> String {
        dual_mut(off, bytes, |a| {
            let r = {
                let x = T::from_mut_bytes(a.slice_mut()).expect("assign needs a valid image");
                x.assign_in_place(Dyn(spec)).map(|_| ())
            };
            after_emplace::<T>(a, r)
        })
    }
    fn default(&self, off: usize, bytes: &[u8]) -> String {
        let mut out = dual_mut(off, bytes, |a| match T::dflt(a.slice_mut()) {
            Some(r) => after_emplace::<T>(a, r),
            None => "no-default".into(),
        });
        // FlatWrap::default_in_place must do exactly what default_in_place does
        let w = guarded(|| {
            let mut b = Arena::new(off, bytes, 0x55);
            let mut c = Arena::new(off, bytes, 0x55);
            match (T::wrap_dflt(b.slice_mut()), T::dflt(c.slice_mut())) {
                (Some(r1), Some(r2)) => {
                    // (padding bytes of a ptr.write are unspecified: compare verdict and content, not raw bytes)
                    let same_state = match (T::from_bytes(b.slice()), T::from_bytes(c.slice())) {
                        (Ok(x), Ok(y)) => deep_s(x) == deep_s(y) && x.size() == y.size(),
                        (Err(e1), Err(e2)) => kind_s(&e1) == kind_s(&e2),
                        _ => false,
                    };
                    if res_s(&r1) == res_s(&r2) && same_state && b.guards_intact() {
                        "same".to_string()
                    } else {
                        format!("DIFF:{}:{}", res_s(&r1), res_s(&r2))
                    }
                }
                (None, None) => "same".to_string(),
                _ => "DIFF:availability".to_string(),
            }
        });
        write!(out, " wrap={}", w).unwrap();
        out
    }
    fn io(&self, kind: &str, args: &[&str]) -> String {
        crate::io_suite::run_io::<T>(kind, args)
    }
    fn hist(&self, off: usize, bytes: &[u8], init: &Spec, ops: &[HOp]) -> String {
        // a history is one case: the steps are printed one after another, separated by " | "
        let mut a = Arena::new(off, bytes, 0x55);
        let mut out = String::new();
        let r = guarded(|| res_s(&T::new_in_place(a.slice_mut(), Dyn(init)).map(|_| ())));
        write!(out, "init={}", r).unwrap();
        if r != "ok" {
            return out;
        }
        out.push_str(&hist_obs::<T>(&a));
        for op in ops {
            let r = guarded(|| {
                let x = unsafe { T::from_mut_bytes_unchecked(a.slice_mut()) };
                x.hop(op)
            });
            write!(out, " | res={}", r).unwrap();
            let obs = hist_obs::<T>(&a);
            let valid = obs.contains(" val=ok ");
            out.push_str(&obs);
            if !a.guards_intact() {
                out.push_str(" OOB-WRITE");
                break;
            }
            if !valid {
                break;
            }
        }
        out
    }
}

fn hist_obs<T: Probe + ?Sized>(a: &Arena) -> String {
    let bytes = a.slice();
    let mut o = String::new();
    let val = guarded(|| res_s(&T::validate(bytes)));
    let mut eq_flag = false;
    write!(o, " val={} ", val).unwrap();
    if val == "ok" {
        let x = unsafe { T::from_bytes_unchecked(bytes) };
        let view = deep_s(x);
        write!(o, "view={} size={}", view, guarded(|| format!("ok:{}", x.size()))).unwrap();
        eq_flag = match guarded(|| x.eq_oracle().unwrap_or_else(|| "ok".into())).as_str() {
            "ok" => false,
            _ => true,
        };
        // truncate to size(): must map again to the same content
        let tv = guarded(|| {
            let n = x.size();
            if n > bytes.len() {
                return "-".into();
            }
            match T::from_bytes(&bytes[..n]) {
                Ok(y) => {
                    if strip_caps(&deep_s(y)) == strip_caps(&view) && y.size() == n {
                        "ok".into()
                    } else {
                        "DIFFERENT".into()
                    }
                }
                Err(e) => kind_s(&e),
            }
        });
        write!(o, " tv={}", tv).unwrap();
        // the value's own bytes: as_bytes() must lie in the slice, validate, and re-map to the same state
        // (capacity included: it never changes)
        let ab = guarded(|| {
            let ab = x.as_bytes();
            if ab.as_ptr() != bytes.as_ptr() || ab.len() > bytes.len() {
                return "OUTSIDE".into();
            }
            match T::from_bytes(ab) {
                Ok(y) => {
                    if deep_s(y) == view {
                        "ok".into()
                    } else {
                        "DIFFERENT".into()
                    }
                }
                Err(e) => kind_s(&e),
            }
        });
        write!(o, " ab={}", ab).unwrap();
    } else {
        o.push_str("view=- size=- tv=- ab=-");
    }
    write!(o, " buf={}", raw_hex(bytes)).unwrap();
    if eq_flag {
        o.push_str(" EQ-MISMATCH");
    }
    o
}
