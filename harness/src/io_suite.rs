//! IO suite: drives the real `flatty_io` senders and receivers (blocking and async) over scripted
//! pipes and prints one canonical result per case.  The protocol is `notes/io-protocol.md`; the
//! model side (`coq/Model/Io.v` through `runner/main.ml`) prints the same lines.
//!
//! Case line: `IO <cid> <kind> <shape> <args...>`; `main.rs` looks the shape up and calls
//! `Ops::io(kind, args)`, which lands in [`run_io`] with `args = toks[4..]`.
//!
//! Kinds
//!
//! * `recv <max_msg_len> <stream-hex|-> <rscript> <nrecv>`
//!   blocking `Receiver::<T, _>::io(ScriptedRead, max_msg_len)`; `nrecv` times `recv()`.
//!   Read directives (one per `read()` call, comma separated, `-` = empty): `d<k>` deliver
//!   `min(k, buf.len(), remaining)` bytes, `z` `Ok(0)`, `e<Kind>` error; after the script: deliver
//!   everything that fits.  Result `r=<o1>;<o2>;... calls=<read calls>` with outcomes
//!   `msg:<deep read>`, `closed`, `parse:<Kind>:<pos>`, `read:<io Kind>`, `panic` (stop), `hang` (stop).
//! * `send <max_msg_len> <wscript> | <init> | <init> ...`
//!   blocking `Sender::<T, _>::io(ScriptedWrite, max_msg_len)`; per init `alloc()`,
//!   `new_in_place(Dyn(&spec))`, `send()`.  Write directives: `a<k>` accept `min(k, buf.len())`, `z`
//!   `Ok(0)`, `e<Kind>` error; after the script: accept everything.  Result
//!   `s=<o1>;... sink=<hex|-> calls=<write calls>` with outcomes `ok`, `alloc:<Kind>`,
//!   `emplace:<Kind>:<pos>`, `io:<Kind>`, `panic` (continue), `hang` (stop).
//! * `arecv <max_msg_len> <stream-hex|-> <rscript> <nrecv>`
//!   the async `Receiver` over a scripted `AsyncRead`, every future polled by hand with a no-op
//!   waker.  Extra directive `p` (the pipe call returns `Pending`).  Result
//!   `r=... calls=<poll_read calls> polls=<future polls>`.
//! * `asend <max_msg_len> <wscript> <fscript> | <init> | ...`
//!   the async `Sender` over a scripted `AsyncWrite`; `fscript` (`fo`, `fp`, `fe<Kind>`) drives
//!   `poll_flush`.  Every outcome carries the pipe event log of that send: `ok[w3.wp.w2.fo]`.
//!   Result `s=... sink=<hex|-> calls=<poll_write calls> polls=<future polls>`.
//! * `sys <max_msg_len> <pipe_cap> <schedule|-> | <init> | ...`
//!   an async sender task and an async receiver task joined by a bounded ring pipe, polled
//!   according to the schedule (`S`/`R` poll the sender/receiver task, `s`/`r` the same with a
//!   spurious `Pending` from the first `poll_write`/`poll_read` of that poll), then `S`,`R` alternating.
//!   Result `delivered=<v1>;<v2>;... recv_end=<..> send_end=<..> polls=<task polls>`.
//!
//! Choices made where the protocol leaves room (the model has to agree with these):
//!
//! * The pipe counts a call before it checks the watchdog, so a tripped watchdog shows
//!   `calls = limit + 1`.  The watchdog looks at read calls (`recv`, `arecv`) and write calls
//!   (`send`, `asend`) only; flush calls are neither counted nor limited.
//! * `asend`: `limit = 64 * #inits + len(wscript) + len(fscript) + 16`.
//! * The poll budget of `arecv`/`asend` is one budget for the whole case: when a future needs
//!   another poll and `polls == limit` already, that step is `hang` (the poll is not made).
//! * `hang` stops the case in all four scripted kinds (also in `send`/`asend`, where errors and
//!   panics continue with the next init).
//! * `asend` prints the event log after every outcome, also the ones that cannot have events:
//!   `emplace:InsufficientSize:0[]`, `alloc:Other[]`, `hang[wp.wp]`.  An empty log is `[]`.
//! * When the constructor (`::io`) itself panics the only outcome is `panic` (`r=panic calls=0`).
//! * `sys`: a poll of a finished task is not made and not counted, neither in `polls=` nor in the
//!   budget of the tail.  The tail starts with `S`.  The spurious flag belongs to one poll: it is
//!   cleared after the poll when no `poll_write`/`poll_read` used it; `poll_flush` neither looks at it
//!   nor uses it.  The write end is closed as soon as the sender task is finished in any way (value,
//!   error, panic).  An alloc error of the sender task is `io:<Kind>`.
//! * `sys`: `total bytes` of the tail budget is the number of bytes a blocking sender with the same
//!   `max_msg_len` writes for these inits when every write is accepted, i.e. the sum of the sizes of
//!   all messages whose emplacement succeeds (a failing init counts 0, the ones after it still count);
//!   `number of messages` is the number of inits.
//! * `sys` has two extra ends that only a defective library can reach: `recv_end=hang` when the
//!   receiver task delivered more than `#inits + 16` messages (messages of size 0 never read the pipe)
//!   and `hang` for either end when the ring saw more than `8 * (total bytes + #inits) + 4 *
//!   len(schedule) + 256` pipe calls.
//! * An empty schedule may be written `-`.
//!
//! Bytes the library never initialises (padding) come out of the sink as whatever the allocator left
//! there; the comparison has to mask them like it does for `buf=` of the emplace suite.
#![allow(clippy::all)]

use crate::probe::{bytes_to_hex, hex_to_bytes, parse_spec, tokenize, DeepRead, Dyn, Probe, Spec};
use flatty::Emplacer;
use flatty_io::{AsyncReceiver, AsyncSender, Receiver, RecvError, Sender};
use futures::io::{AsyncRead, AsyncWrite};
use futures::task::noop_waker;
use std::any::Any;
use std::cell::{Cell, RefCell};
use std::collections::VecDeque;
use std::future::Future;
use std::io;
use std::ops::Deref;
use std::panic::{catch_unwind, panic_any, resume_unwind, AssertUnwindSafe};
use std::pin::Pin;
use std::rc::Rc;
use std::task::{Context, Poll};

const WATCHDOG: &str = "WATCHDOG";

type Payload = Box<dyn Any + Send>;

fn is_watchdog(p: &Payload) -> bool {
    if let Some(s) = p.downcast_ref::<&'static str>() {
        return *s == WATCHDOG;
    }
    if let Some(s) = p.downcast_ref::<String>() {
        return s == WATCHDOG;
    }
    false
}

fn panic_s(p: &Payload) -> &'static str {
    if is_watchdog(p) {
        "hang"
    } else {
        "panic"
    }
}

// ---------------------------------------------------------------- directives

#[derive(Clone, Copy, Debug)]
enum Dir {
    /// `d<k>` / `a<k>`
    Data(usize),
    /// `z`
    Zero,
    /// `e<Kind>`
    Fail(io::ErrorKind),
    /// `p` (async only)
    Pending,
}

#[derive(Clone, Copy, Debug)]
enum FlushDir {
    Done,
    Pending,
    Fail(io::ErrorKind),
}

fn parse_kind(s: &str) -> Result<io::ErrorKind, String> {
    use io::ErrorKind::*;
    Ok(match s {
        "Interrupted" => Interrupted,
        "WouldBlock" => WouldBlock,
        "Other" => Other,
        "UnexpectedEof" => UnexpectedEof,
        "BrokenPipe" => BrokenPipe,
        "TimedOut" => TimedOut,
        "OutOfMemory" => OutOfMemory,
        "InvalidData" => InvalidData,
        "InvalidInput" => InvalidInput,
        "WriteZero" => WriteZero,
        "ConnectionReset" => ConnectionReset,
        "ConnectionAborted" => ConnectionAborted,
        "NotConnected" => NotConnected,
        other => return Err(format!("unknown io error kind {}", other)),
    })
}

fn parse_usize(s: &str, what: &str) -> Result<usize, String> {
    s.parse::<usize>().map_err(|_| format!("bad {} {:?}", what, s))
}

/// `data` is the letter of the data directive: `d` for read scripts, `a` for write scripts.
fn parse_script(s: &str, data: char, allow_pending: bool) -> Result<VecDeque<Dir>, String> {
    let mut out = VecDeque::new();
    if s == "-" || s.is_empty() {
        return Ok(out);
    }
    for t in s.split(',') {
        let d = if t == "z" {
            Dir::Zero
        } else if t == "p" {
            if !allow_pending {
                return Err(format!("directive p in a blocking script {:?}", s));
            }
            Dir::Pending
        } else if let Some(k) = t.strip_prefix('e') {
            Dir::Fail(parse_kind(k)?)
        } else if let Some(k) = t.strip_prefix(data) {
            Dir::Data(parse_usize(k, "directive count")?)
        } else {
            return Err(format!("bad directive {:?} in {:?}", t, s));
        };
        out.push_back(d);
    }
    Ok(out)
}

fn parse_flush_script(s: &str) -> Result<VecDeque<FlushDir>, String> {
    let mut out = VecDeque::new();
    if s == "-" || s.is_empty() {
        return Ok(out);
    }
    for t in s.split(',') {
        let d = if t == "fo" {
            FlushDir::Done
        } else if t == "fp" {
            FlushDir::Pending
        } else if let Some(k) = t.strip_prefix("fe") {
            FlushDir::Fail(parse_kind(k)?)
        } else {
            return Err(format!("bad flush directive {:?} in {:?}", t, s));
        };
        out.push_back(d);
    }
    Ok(out)
}

/// `| <init> | <init> ...` -> specs.  `toks` starts at the first `|` (or is empty).
/// the in-place operation of message `i` (`<init> ~ <op>`): applied through the send guard before sending
type Edits = Vec<Option<crate::probe::HOp>>;

fn parse_inits(toks: &[&str]) -> Result<Vec<Spec>, String> {
    parse_msgs(toks).map(|(s, _)| s)
}

fn parse_msgs(toks: &[&str]) -> Result<(Vec<Spec>, Edits), String> {
    let toks: Vec<&str> = toks.iter().copied().filter(|t| !t.is_empty()).collect();
    if toks.is_empty() {
        return Ok((Vec::new(), Vec::new()));
    }
    if toks[0] != "|" {
        return Err(format!("expected | before the inits, found {:?}", toks[0]));
    }
    let mut out = Vec::new();
    let mut edits = Vec::new();
    for group in toks.split(|t| *t == "|") {
        if group.is_empty() {
            continue;
        }
        let (ini, edit) = match group.iter().position(|t| *t == "~") {
            Some(k) => (&group[..k], Some(&group[k + 1..])),
            None => (group, None),
        };
        let text = ini.join(" ");
        let st = tokenize(&text);
        let mut p = 0;
        let spec = catch_unwind(AssertUnwindSafe(|| parse_spec(&st, &mut p))).map_err(|_| format!("bad init {:?}", text))?;
        if p != st.len() {
            return Err(format!("trailing tokens in init {:?}", text));
        }
        out.push(spec);
        edits.push(match edit {
            None => None,
            Some(e) => {
                let st = tokenize(&e.join(" "));
                let mut p = 0;
                Some(catch_unwind(AssertUnwindSafe(|| crate::probe::parse_hop(&st, &mut p))).map_err(|_| format!("bad edit {:?}", e))?)
            }
        });
    }
    Ok((out, edits))
}

// ---------------------------------------------------------------- scripted read end

struct ReadState {
    stream: Vec<u8>,
    pos: usize,
    script: VecDeque<Dir>,
    calls: usize,
    limit: usize,
}

impl ReadState {
    fn new(stream: Vec<u8>, script: VecDeque<Dir>, limit: usize) -> Rc<RefCell<Self>> {
        Rc::new(RefCell::new(ReadState {
            stream,
            pos: 0,
            script,
            calls: 0,
            limit,
        }))
    }
    fn step(&mut self, buf: &mut [u8]) -> Poll<io::Result<usize>> {
        self.calls += 1;
        if self.calls > self.limit {
            panic_any(WATCHDOG);
        }
        let k = match self.script.pop_front() {
            None => usize::MAX,
            Some(Dir::Data(k)) => k,
            Some(Dir::Zero) => return Poll::Ready(Ok(0)),
            Some(Dir::Fail(kind)) => return Poll::Ready(Err(kind.into())),
            Some(Dir::Pending) => {
                pipe_pending();
                return Poll::Pending;
            }
        };
        let n = k.min(buf.len()).min(self.stream.len() - self.pos);
        buf[..n].copy_from_slice(&self.stream[self.pos..self.pos + n]);
        self.pos += n;
        Poll::Ready(Ok(n))
    }
}

pub struct ScriptedRead(Rc<RefCell<ReadState>>);

impl io::Read for ScriptedRead {
    fn read(&mut self, buf: &mut [u8]) -> io::Result<usize> {
        match self.0.borrow_mut().step(buf) {
            Poll::Ready(r) => r,
            Poll::Pending => panic!("pending directive in a blocking read script"),
        }
    }
}

pub struct ScriptedAsyncRead(Rc<RefCell<ReadState>>);

impl AsyncRead for ScriptedAsyncRead {
    fn poll_read(self: Pin<&mut Self>, _cx: &mut Context<'_>, buf: &mut [u8]) -> Poll<io::Result<usize>> {
        self.0.borrow_mut().step(buf)
    }
}

// ---------------------------------------------------------------- scripted write end

struct WriteState {
    sink: Vec<u8>,
    wscript: VecDeque<Dir>,
    fscript: VecDeque<FlushDir>,
    calls: usize,
    limit: usize,
    events: Vec<String>,
}

impl WriteState {
    fn new(wscript: VecDeque<Dir>, fscript: VecDeque<FlushDir>, limit: usize) -> Rc<RefCell<Self>> {
        Rc::new(RefCell::new(WriteState {
            sink: Vec::new(),
            wscript,
            fscript,
            calls: 0,
            limit,
            events: Vec::new(),
        }))
    }
    fn write_step(&mut self, buf: &[u8]) -> Poll<io::Result<usize>> {
        self.calls += 1;
        if self.calls > self.limit {
            panic_any(WATCHDOG);
        }
        let k = match self.wscript.pop_front() {
            None => usize::MAX,
            Some(Dir::Data(k)) => k,
            Some(Dir::Zero) => 0,
            Some(Dir::Fail(kind)) => {
                self.events.push("we".into());
                return Poll::Ready(Err(kind.into()));
            }
            Some(Dir::Pending) => {
                self.events.push("wp".into());
                pipe_pending();
                return Poll::Pending;
            }
        };
        let n = k.min(buf.len());
        if n == 0 {
            self.events.push("wz".into());
        } else {
            self.sink.extend_from_slice(&buf[..n]);
            self.events.push(format!("w{}", n));
        }
        Poll::Ready(Ok(n))
    }
    fn flush_step(&mut self) -> Poll<io::Result<()>> {
        match self.fscript.pop_front() {
            None | Some(FlushDir::Done) => {
                self.events.push("fo".into());
                Poll::Ready(Ok(()))
            }
            Some(FlushDir::Pending) => {
                self.events.push("fp".into());
                pipe_pending();
                Poll::Pending
            }
            Some(FlushDir::Fail(kind)) => {
                self.events.push("fe".into());
                Poll::Ready(Err(kind.into()))
            }
        }
    }
    fn take_events(&mut self) -> String {
        let s = self.events.join(".");
        self.events.clear();
        s
    }
}

pub struct ScriptedWrite(Rc<RefCell<WriteState>>);

impl io::Write for ScriptedWrite {
    fn write(&mut self, buf: &[u8]) -> io::Result<usize> {
        match self.0.borrow_mut().write_step(buf) {
            Poll::Ready(r) => r,
            Poll::Pending => panic!("pending directive in a blocking write script"),
        }
    }
    fn flush(&mut self) -> io::Result<()> {
        Ok(())
    }
}

pub struct ScriptedAsyncWrite(Rc<RefCell<WriteState>>);

impl AsyncWrite for ScriptedAsyncWrite {
    fn poll_write(self: Pin<&mut Self>, _cx: &mut Context<'_>, buf: &[u8]) -> Poll<io::Result<usize>> {
        self.0.borrow_mut().write_step(buf)
    }
    fn poll_flush(self: Pin<&mut Self>, _cx: &mut Context<'_>) -> Poll<io::Result<()>> {
        self.0.borrow_mut().flush_step()
    }
    fn poll_close(self: Pin<&mut Self>, _cx: &mut Context<'_>) -> Poll<io::Result<()>> {
        Poll::Ready(Ok(()))
    }
}

// ---------------------------------------------------------------- ring pipe (sys)

struct Ring {
    data: VecDeque<u8>,
    cap: usize,
    closed: bool,
    /// set by the scheduler for one task poll; the first poll_write / poll_read uses it
    spurious: bool,
    calls: usize,
    limit: usize,
}

impl Ring {
    fn call(&mut self) {
        self.calls += 1;
        if self.calls > self.limit {
            panic_any(WATCHDOG);
        }
    }
}

pub struct RingWriter(Rc<RefCell<Ring>>);
pub struct RingReader(Rc<RefCell<Ring>>);

impl AsyncWrite for RingWriter {
    fn poll_write(self: Pin<&mut Self>, _cx: &mut Context<'_>, buf: &[u8]) -> Poll<io::Result<usize>> {
        let mut r = self.0.borrow_mut();
        r.call();
        if r.spurious {
            r.spurious = false;
            pipe_pending();
            return Poll::Pending;
        }
        if buf.is_empty() {
            return Poll::Ready(Ok(0));
        }
        let free = r.cap - r.data.len();
        if free == 0 {
            pipe_pending();
            return Poll::Pending;
        }
        let n = buf.len().min(free);
        r.data.extend(buf[..n].iter().copied());
        Poll::Ready(Ok(n))
    }
    fn poll_flush(self: Pin<&mut Self>, _cx: &mut Context<'_>) -> Poll<io::Result<()>> {
        Poll::Ready(Ok(()))
    }
    fn poll_close(self: Pin<&mut Self>, _cx: &mut Context<'_>) -> Poll<io::Result<()>> {
        Poll::Ready(Ok(()))
    }
}

impl AsyncRead for RingReader {
    fn poll_read(self: Pin<&mut Self>, _cx: &mut Context<'_>, buf: &mut [u8]) -> Poll<io::Result<usize>> {
        let mut r = self.0.borrow_mut();
        r.call();
        if r.spurious {
            r.spurious = false;
            pipe_pending();
            return Poll::Pending;
        }
        if r.data.is_empty() {
            return if r.closed {
                Poll::Ready(Ok(0))
            } else {
                pipe_pending();
                Poll::Pending
            };
        }
        let n = buf.len().min(r.data.len());
        for b in buf[..n].iter_mut() {
            *b = r.data.pop_front().unwrap();
        }
        Poll::Ready(Ok(n))
    }
}

// ---------------------------------------------------------------- helpers

fn recv_err_s(e: RecvError<io::Error>) -> String {
    match e {
        RecvError::Closed => "closed".into(),
        RecvError::Parse(e) => format!("parse:{:?}:{}", e.kind, e.pos),
        RecvError::Read(e) => format!("read:{:?}", e.kind()),
    }
}

fn emplace_err_s(e: &flatty::Error) -> String {
    format!("emplace:{:?}:{}", e.kind, e.pos)
}

/// Deep-reads the message behind a receive guard, then drops the guard.  The two steps are caught
/// separately so that a panicking read cannot meet a panicking guard drop during unwinding.
fn consume_guard<T: DeepRead + ?Sized, G: Deref<Target = T>>(guard: G) -> Result<String, Payload> {
    let mut s = String::new();
    let read = catch_unwind(AssertUnwindSafe(|| DeepRead::deep(&*guard, &mut s)));
    let dropped = catch_unwind(AssertUnwindSafe(move || drop(guard)));
    read?;
    dropped?;
    Ok(s)
}

// Wake-up discipline (C08): a library future may answer Poll::Pending only when the pipe it polled in that
// same call answered Pending (the pipe is then the one that holds the waker and will wake the task).  A Pending
// with no pipe Pending behind it is a lost wake-up under a real executor; the harness, which polls regardless of
// wake-ups, would not notice it otherwise.  Reported as the extra key `wake=lost` (never printed by the model).
thread_local! {
    static PIPE_PENDINGS: Cell<usize> = Cell::new(0);
    static LOST_WAKE: Cell<bool> = Cell::new(false);
}
fn pipe_pending() {
    PIPE_PENDINGS.with(|c| c.set(c.get() + 1));
}
fn pipe_pendings() -> usize {
    PIPE_PENDINGS.with(|c| c.get())
}
fn note_poll<T>(before: usize, r: &Poll<T>) {
    if r.is_pending() && pipe_pendings() == before {
        LOST_WAKE.with(|c| c.set(true));
    }
}

/// Polls the future until it is ready; `None` when the poll budget of the case is used up.
fn drive<F: Future + ?Sized>(mut fut: Pin<&mut F>, polls: &Cell<usize>, limit: usize) -> Option<F::Output> {
    let waker = noop_waker();
    let mut cx = Context::from_waker(&waker);
    loop {
        if polls.get() >= limit {
            return None;
        }
        polls.set(polls.get() + 1);
        let before = pipe_pendings();
        let r = fut.as_mut().poll(&mut cx);
        note_poll(before, &r);
        if let Poll::Ready(v) = r {
            return Some(v);
        }
    }
}

// ---------------------------------------------------------------- recv / arecv

fn run_recv<T: Probe + ?Sized>(args: &[&str], is_async: bool) -> Result<String, String> {
    if args.len() != 4 {
        return Err(format!("recv needs 4 arguments, got {}", args.len()));
    }
    // `c<n>`: a receiver over `IoBuffer::new(pipe, n, ALIGN)`; otherwise `Receiver::io(pipe, max_msg_len)`
    let max = match args[0].strip_prefix('c') {
        Some(c) => Cap::Exact(parse_usize(c, "capacity")?),
        None => Cap::MaxMsgLen(parse_usize(args[0], "max_msg_len")?),
    };
    let stream = hex_to_bytes(args[1]);
    let script = parse_script(args[2], 'd', is_async)?;
    let nrecv = parse_usize(args[3], "nrecv")?;
    let limit = stream.len() + script.len() + 2 * nrecv + 16;
    Ok(recv_case::<T>(max, stream, script, nrecv, limit, is_async))
}

#[derive(Clone, Copy)]
pub enum Cap {
    MaxMsgLen(usize),
    Exact(usize),
}

fn recv_case<T: Probe + ?Sized>(
    max: Cap,
    stream: Vec<u8>,
    script: VecDeque<Dir>,
    nrecv: usize,
    limit: usize,
    is_async: bool,
) -> String {
    let st = ReadState::new(stream, script, limit);
    let polls = Cell::new(0usize);
    let mut outs: Vec<String> = Vec::new();

    if !is_async {
        match catch_unwind(AssertUnwindSafe(|| match max {
            Cap::MaxMsgLen(m) => Receiver::<T, _>::io(ScriptedRead(st.clone()), m),
            Cap::Exact(c) => Receiver::<T, _>::new(flatty_io::IoBuffer::new(ScriptedRead(st.clone()), c, <T as flatty::traits::FlatBase>::ALIGN)),
        })) {
            Err(_) => outs.push("panic".into()),
            Ok(mut receiver) => {
                for _ in 0..nrecv {
                    let r = catch_unwind(AssertUnwindSafe(|| {
                        // RecvGuard::retain leaves the message in the receiver: the next recv must hand out
                        // the same message again without touching the pipe
                        let first = match receiver.recv() {
                            Ok(g) => {
                                let mut first = String::new();
                                DeepRead::deep(&*g, &mut first);
                                g.retain();
                                first
                            }
                            Err(e) => return recv_err_s(e),
                        };
                        let calls0 = st.borrow().calls;
                        let second = receiver.recv();
                        match second {
                            Ok(g2) => match consume_guard(g2) {
                                Ok(s) if s == first && st.borrow().calls == calls0 => format!("msg:{}", s),
                                Ok(s) => format!("msg:RETAIN-MISMATCH:{}:{}", first, s),
                                Err(p) => resume_unwind(p),
                            },
                            Err(e) => format!("msg:RETAIN-LOST:{}", recv_err_s(e)),
                        }
                    }));
                    match r {
                        Ok(s) => outs.push(s),
                        Err(p) => {
                            outs.push(panic_s(&p).into());
                            break;
                        }
                    }
                }
            }
        }
        let calls = st.borrow().calls;
        format!("r={} calls={}", outs.join(";"), calls)
    } else {
        match catch_unwind(AssertUnwindSafe(|| match max {
            Cap::MaxMsgLen(m) => AsyncReceiver::<T, _>::io(ScriptedAsyncRead(st.clone()), m),
            Cap::Exact(c) => {
                AsyncReceiver::<T, _>::new(flatty_io::IoBuffer::new(ScriptedAsyncRead(st.clone()), c, <T as flatty::traits::FlatBase>::ALIGN))
            }
        })) {
            Err(_) => outs.push("panic".into()),
            Ok(mut receiver) => {
                for _ in 0..nrecv {
                    let r = catch_unwind(AssertUnwindSafe(|| {
                        // retain, then recv again (own poll budget: the model counts the polls of the first
                        // recv only); must complete at once with the same message and no pipe call
                        let first = {
                            let mut fut = Box::pin(receiver.recv());
                            match drive(fut.as_mut(), &polls, limit) {
                                None => return None,
                                Some(Ok(g)) => {
                                    let mut first = String::new();
                                    DeepRead::deep(&*g, &mut first);
                                    g.retain();
                                    first
                                }
                                Some(Err(e)) => return Some(recv_err_s(e)),
                            }
                        };
                        let calls0 = st.borrow().calls;
                        let extra = Cell::new(0usize);
                        let mut fut2 = Box::pin(receiver.recv());
                        let second = drive(fut2.as_mut(), &extra, 1);
                        match second {
                            Some(Ok(g2)) => match consume_guard(g2) {
                                Ok(s) if s == first && st.borrow().calls == calls0 => Some(format!("msg:{}", s)),
                                Ok(s) => Some(format!("msg:RETAIN-MISMATCH:{}:{}", first, s)),
                                Err(p) => resume_unwind(p),
                            },
                            Some(Err(e)) => Some(format!("msg:RETAIN-LOST:{}", recv_err_s(e))),
                            None => Some("msg:RETAIN-PENDING".into()),
                        }
                    }));
                    match r {
                        Ok(Some(s)) => outs.push(s),
                        Ok(None) => {
                            outs.push("hang".into());
                            break;
                        }
                        Err(p) => {
                            outs.push(panic_s(&p).into());
                            break;
                        }
                    }
                }
            }
        }
        let calls = st.borrow().calls;
        format!("r={} calls={} polls={}", outs.join(";"), calls, polls.get())
    }
}

// ---------------------------------------------------------------- send / asend

fn run_send<T: Probe + ?Sized>(args: &[&str]) -> Result<String, String>
where
    for<'b> Dyn<'b>: Emplacer<T>,
{
    if args.len() < 2 {
        return Err(format!("send needs at least 2 arguments, got {}", args.len()));
    }
    let max = parse_usize(args[0], "max_msg_len")?;
    let wscript = parse_script(args[1], 'a', false)?;
    let (specs, edits) = parse_msgs(&args[2..])?;
    let limit = 64 * specs.len() + wscript.len() + 16;
    Ok(send_case::<T>(max, wscript, &specs, &edits, limit))
}

fn send_case<T: Probe + ?Sized>(max: usize, wscript: VecDeque<Dir>, specs: &[Spec], edits: &Edits, limit: usize) -> String
where
    for<'b> Dyn<'b>: Emplacer<T>,
{
    let st = WriteState::new(wscript, VecDeque::new(), limit);
    let mut outs: Vec<String> = Vec::new();

    match catch_unwind(AssertUnwindSafe(|| Sender::<T, _>::io(ScriptedWrite(st.clone()), max))) {
        Err(_) => outs.push("panic".into()),
        Ok(mut sender) => {
            for (mi, spec) in specs.iter().enumerate() {
                let r = catch_unwind(AssertUnwindSafe(|| {
                    let g = match sender.alloc() {
                        Ok(g) => g,
                        Err(e) => return format!("alloc:{:?}", e.kind()),
                    };
                    let mut g = g;
                    // the uninitialised guard exposes the whole message buffer: both views have one length, at
                    // least max_msg_len (not written to here: the model predicts the stale bytes a shorter
                    // message leaves behind a longer one, and they are compared)
                    let n = g.as_bytes().len();
                    if n < max || g.as_mut_bytes().len() != n {
                        return format!("guard-bytes:{}", n);
                    }
                    // a default message goes through UninitSendGuard::default_in_place where the type has one
                    let built = if matches!(spec, Spec::Default) {
                        match T::send_dflt_b(g) {
                            Ok(r) => r,
                            Err(g) => g.new_in_place(Dyn(spec)),
                        }
                    } else {
                        g.new_in_place(Dyn(spec))
                    };
                    let mut g = match built {
                        Ok(g) => g,
                        Err(e) => return emplace_err_s(&e),
                    };
                    // an in-place edit through the guard (DerefMut) before the message is sent: what is sent is the
                    // message as it stands when send() is called
                    if let Some(Some(op)) = edits.get(mi) {
                        // (an operation that panics — an index out of range — panics before it changes anything)
                        let _ = catch_unwind(AssertUnwindSafe(|| (&mut *g).hop(op)));
                    }
                    // SendGuard derefs (shared and mutable) to the message that was just constructed
                    let sz = (*g).size();
                    if (&mut *g).size() != sz || (&mut *g).as_bytes().len() < sz {
                        return "guard-deref-mismatch".into();
                    }
                    match g.send() {
                        Ok(()) => "ok".into(),
                        Err(e) => format!("io:{:?}", e.kind()),
                    }
                }));
                match r {
                    Ok(s) => outs.push(s),
                    Err(p) => {
                        let hang = is_watchdog(&p);
                        outs.push(panic_s(&p).into());
                        if hang {
                            break;
                        }
                    }
                }
            }
        }
    }
    let s = st.borrow();
    format!("s={} sink={} calls={}", outs.join(";"), bytes_to_hex(&s.sink), s.calls)
}

fn run_asend<T: Probe + ?Sized>(args: &[&str]) -> Result<String, String>
where
    for<'b> Dyn<'b>: Emplacer<T>,
{
    if args.len() < 3 {
        return Err(format!("asend needs at least 3 arguments, got {}", args.len()));
    }
    let max = parse_usize(args[0], "max_msg_len")?;
    let wscript = parse_script(args[1], 'a', true)?;
    let fscript = parse_flush_script(args[2])?;
    let (specs, edits) = parse_msgs(&args[3..])?;
    let limit = 64 * specs.len() + wscript.len() + fscript.len() + 16;
    Ok(asend_case::<T>(max, wscript, fscript, &specs, &edits, limit))
}

fn asend_case<T: Probe + ?Sized>(
    max: usize,
    wscript: VecDeque<Dir>,
    fscript: VecDeque<FlushDir>,
    specs: &[Spec],
    edits: &Edits,
    limit: usize,
) -> String
where
    for<'b> Dyn<'b>: Emplacer<T>,
{
    let st = WriteState::new(wscript, fscript, limit);
    let polls = Cell::new(0usize);
    let mut outs: Vec<String> = Vec::new();

    match catch_unwind(AssertUnwindSafe(|| AsyncSender::<T, _>::io(ScriptedAsyncWrite(st.clone()), max))) {
        Err(_) => outs.push("panic".into()),
        Ok(mut sender) => {
            for (mi, spec) in specs.iter().enumerate() {
                st.borrow_mut().events.clear();
                // None = poll budget used up
                let r = catch_unwind(AssertUnwindSafe(|| -> Option<String> {
                    let g = {
                        let mut fut = Box::pin(sender.alloc());
                        match drive(fut.as_mut(), &polls, limit)? {
                            Ok(g) => g,
                            Err(e) => return Some(format!("alloc:{:?}", e.kind())),
                        }
                    };
                    let mut g = g;
                    let n = g.as_bytes().len();
                    if n < max || g.as_mut_bytes().len() != n {
                        return Some(format!("guard-bytes:{}", n));
                    }
                    let built = if matches!(spec, Spec::Default) {
                        match T::send_dflt_a(g) {
                            Ok(r) => r,
                            Err(g) => g.new_in_place(Dyn(spec)),
                        }
                    } else {
                        g.new_in_place(Dyn(spec))
                    };
                    let mut g = match built {
                        Ok(g) => g,
                        Err(e) => return Some(emplace_err_s(&e)),
                    };
                    if let Some(Some(op)) = edits.get(mi) {
                        // (an operation that panics — an index out of range — panics before it changes anything)
                        let _ = catch_unwind(AssertUnwindSafe(|| (&mut *g).hop(op)));
                    }
                    let sz = (*g).size();
                    if (&mut *g).size() != sz || (&mut *g).as_bytes().len() < sz {
                        return Some("guard-deref-mismatch".into());
                    }
                    let mut fut = Box::pin(g.send());
                    Some(match drive(fut.as_mut(), &polls, limit)? {
                        Ok(()) => "ok".into(),
                        Err(e) => format!("io:{:?}", e.kind()),
                    })
                }));
                let events = st.borrow_mut().take_events();
                let (o, stop) = match r {
                    Ok(Some(s)) => (s, false),
                    Ok(None) => ("hang".to_string(), true),
                    Err(p) => (panic_s(&p).to_string(), is_watchdog(&p)),
                };
                outs.push(format!("{}[{}]", o, events));
                if stop {
                    break;
                }
            }
        }
    }
    let s = st.borrow();
    format!(
        "s={} sink={} calls={} polls={}",
        outs.join(";"),
        bytes_to_hex(&s.sink),
        s.calls,
        polls.get()
    )
}

// ---------------------------------------------------------------- sys

enum SendEnd {
    Emplace(flatty::Error),
    Io(io::Error),
}

/// Bytes a blocking sender writes for these inits into a pipe that accepts everything.
fn total_bytes<T: Probe + ?Sized>(max: usize, specs: &[Spec]) -> usize
where
    for<'b> Dyn<'b>: Emplacer<T>,
{
    let st = WriteState::new(VecDeque::new(), VecDeque::new(), usize::MAX);
    let _ = catch_unwind(AssertUnwindSafe(|| {
        let mut sender = Sender::<T, _>::io(ScriptedWrite(st.clone()), max);
        for spec in specs.iter() {
            let _ = catch_unwind(AssertUnwindSafe(|| {
                if let Ok(g) = sender.alloc() {
                    if let Ok(g) = g.new_in_place(Dyn(spec)) {
                        let _ = g.send();
                    }
                }
            }));
        }
    }));
    let n = st.borrow().sink.len();
    n
}

fn run_sys<T: Probe + ?Sized>(args: &[&str]) -> Result<String, String>
where
    for<'b> Dyn<'b>: Emplacer<T>,
{
    if args.len() < 3 {
        return Err(format!("sys needs at least 3 arguments, got {}", args.len()));
    }
    let max = parse_usize(args[0], "max_msg_len")?;
    let cap = parse_usize(args[1], "pipe_cap")?;
    if cap == 0 {
        return Err("pipe_cap must be at least 1".into());
    }
    let schedule: Vec<char> = if args[2] == "-" { Vec::new() } else { args[2].chars().collect() };
    if let Some(c) = schedule.iter().find(|c| !matches!(**c, 'S' | 'R' | 's' | 'r')) {
        return Err(format!("bad schedule letter {:?}", c));
    }
    let specs = parse_inits(&args[3..])?;
    let nmsgs = specs.len();
    let total = total_bytes::<T>(max, &specs);
    let budget = 4 * (total + nmsgs) + 64;
    let ring_limit = 8 * (total + nmsgs) + 4 * schedule.len() + 256;
    Ok(sys_case::<T>(max, cap, &schedule, &specs, budget, ring_limit))
}

fn sys_case<T: Probe + ?Sized>(
    max: usize,
    cap: usize,
    schedule: &[char],
    specs: &[Spec],
    budget: usize,
    ring_limit: usize,
) -> String
where
    for<'b> Dyn<'b>: Emplacer<T>,
{
    let nmsgs = specs.len();
    let ring = Rc::new(RefCell::new(Ring {
        data: VecDeque::new(),
        cap,
        closed: false,
        spurious: false,
        calls: 0,
        limit: ring_limit,
    }));
    let made = catch_unwind(AssertUnwindSafe(|| {
        (
            AsyncSender::<T, _>::io(RingWriter(ring.clone()), max),
            AsyncReceiver::<T, _>::io(RingReader(ring.clone()), max),
        )
    }));
    let (mut sender, mut receiver) = match made {
        Ok(x) => x,
        Err(_) => return "delivered= recv_end=panic send_end=panic polls=0".into(),
    };
    let delivered: RefCell<Vec<String>> = RefCell::new(Vec::new());

    let mut send_task = Box::pin(async {
        for spec in specs.iter() {
            let g = sender.alloc().await.map_err(SendEnd::Io)?;
            let g = g.new_in_place(Dyn(spec)).map_err(SendEnd::Emplace)?;
            g.send().await.map_err(SendEnd::Io)?;
        }
        Ok::<(), SendEnd>(())
    });
    let mut recv_task = Box::pin(async {
        loop {
            match receiver.recv().await {
                Ok(g) => {
                    let s = match consume_guard(g) {
                        Ok(s) => s,
                        Err(p) => resume_unwind(p),
                    };
                    let mut d = delivered.borrow_mut();
                    d.push(s);
                    if d.len() > nmsgs + 16 {
                        panic_any(WATCHDOG);
                    }
                }
                Err(e) => break e,
            }
        }
    });

    let waker = noop_waker();
    let mut cx = Context::from_waker(&waker);
    let mut send_end: Option<String> = None;
    let mut recv_end: Option<String> = None;
    let mut polls = 0usize;
    let mut further = 0usize;
    let mut next = 0usize;
    let mut tail_turn = 0usize;
    loop {
        let (c, in_tail) = if next < schedule.len() {
            next += 1;
            (schedule[next - 1], false)
        } else {
            if (send_end.is_some() && recv_end.is_some()) || further >= budget {
                break;
            }
            tail_turn += 1;
            (if tail_turn % 2 == 1 { 'S' } else { 'R' }, true)
        };
        let spurious = c == 's' || c == 'r';
        let polled = match c {
            'S' | 's' => {
                if send_end.is_some() {
                    false
                } else {
                    ring.borrow_mut().spurious = spurious;
                    let before = pipe_pendings();
                    let r = catch_unwind(AssertUnwindSafe(|| send_task.as_mut().poll(&mut cx)));
                    if let Ok(pr) = &r {
                        note_poll(before, pr);
                    }
                    ring.borrow_mut().spurious = false;
                    let end = match r {
                        Ok(Poll::Pending) => None,
                        Ok(Poll::Ready(Ok(()))) => Some("ok".to_string()),
                        Ok(Poll::Ready(Err(SendEnd::Emplace(e)))) => Some(emplace_err_s(&e)),
                        Ok(Poll::Ready(Err(SendEnd::Io(e)))) => Some(format!("io:{:?}", e.kind())),
                        Err(p) => Some(panic_s(&p).to_string()),
                    };
                    if end.is_some() {
                        send_end = end;
                        ring.borrow_mut().closed = true;
                    }
                    true
                }
            }
            _ => {
                if recv_end.is_some() {
                    false
                } else {
                    ring.borrow_mut().spurious = spurious;
                    let before = pipe_pendings();
                    let r = catch_unwind(AssertUnwindSafe(|| recv_task.as_mut().poll(&mut cx)));
                    if let Ok(pr) = &r {
                        note_poll(before, pr);
                    }
                    ring.borrow_mut().spurious = false;
                    match r {
                        Ok(Poll::Pending) => (),
                        Ok(Poll::Ready(e)) => recv_end = Some(recv_err_s(e)),
                        Err(p) => recv_end = Some(panic_s(&p).to_string()),
                    }
                    true
                }
            }
        };
        if polled {
            polls += 1;
            if in_tail {
                further += 1;
            }
        }
    }
    let res = format!(
        "delivered={} recv_end={} send_end={} polls={}",
        delivered.borrow().join(";"),
        recv_end.unwrap_or_else(|| "running".into()),
        send_end.unwrap_or_else(|| "running".into()),
        polls
    );
    res
}

// ---------------------------------------------------------------- entry

pub fn run_io<T: Probe + ?Sized>(kind: &str, args: &[&str]) -> String
where
    for<'b> Dyn<'b>: Emplacer<T>,
{
    let r = catch_unwind(AssertUnwindSafe(|| match kind {
        "recv" => run_recv::<T>(args, false),
        "arecv" => run_recv::<T>(args, true),
        "send" => run_send::<T>(args),
        "asend" => run_asend::<T>(args),
        "sys" => run_sys::<T>(args),
        other => Err(format!("unknown io kind {}", other)),
    }));
    let lost = LOST_WAKE.with(|c| c.replace(false));
    match r {
        Ok(Ok(s)) if lost => format!("{} wake=lost", s),
        Ok(Ok(s)) => s,
        Ok(Err(e)) => format!("HARNESS-ERROR {}", e),
        Err(_) => "HARNESS-ERROR panic outside the guarded steps".into(),
    }
}

// ---------------------------------------------------------------- tests of the harness itself

#[cfg(test)]
mod tests {
    use super::*;
    use crate::impl_dyn_sized;
    use crate::probe::FromSpec;
    use flatty::{flat, prelude::*};
    use std::fmt::Write as _;

    /// an 8 byte message of the suite's own, so that the tests do not depend on the generated shapes
    #[flat(default = true)]
    pub struct TMsg {
        pub a: u32,
        pub b: u32,
    }
    impl DeepRead for TMsg {
        fn deep(&self, o: &mut String) {
            write!(o, "(n0 {:#x} {:#x})", self.a, self.b).unwrap();
        }
    }
    impl FromSpec for TMsg {
        fn from_spec(s: &Spec) -> Self {
            match s {
                Spec::Seq(v) => TMsg {
                    a: FromSpec::from_spec(&v[0]),
                    b: FromSpec::from_spec(&v[1]),
                },
                _ => panic!("bad spec"),
            }
        }
    }
    impl_dyn_sized!(TMsg);
    impl Probe for TMsg {
        const STATIC_SIZE: Option<usize> = Some(<TMsg as FlatSized>::SIZE);
        fn dflt(b: &mut [u8]) -> Option<Result<(), flatty::Error>> {
            Some(<TMsg>::default_in_place(b).map(|_| ()))
        }
        fn wrap_dflt(b: &mut [u8]) -> Option<Result<(), flatty::Error>> {
            Some(::flatty::FlatWrap::<TMsg, &mut [u8]>::default_in_place(b).map(|_| ()))
        }
        fn send_dflt_b<'a, B: flatty_io::blocking::WriteBuffer + 'a>(
            g: flatty_io::blocking::UninitSendGuard<'a, Self, B>,
        ) -> Result<Result<flatty_io::blocking::SendGuard<'a, Self, B>, flatty::Error>, flatty_io::blocking::UninitSendGuard<'a, Self, B>>
        {
            Ok(g.default_in_place())
        }
        fn send_dflt_a<'a, B: flatty_io::async_::AsyncWriteBuffer + 'a>(
            g: flatty_io::async_::UninitSendGuard<'a, Self, B>,
        ) -> Result<Result<flatty_io::async_::SendGuard<'a, Self, B>, flatty::Error>, flatty_io::async_::UninitSendGuard<'a, Self, B>>
        {
            Ok(g.default_in_place())
        }
    }

    /// the expected panics of the library would clutter the output; IO_TEST_LOUD=1 shows them
    fn quiet() {
        if std::env::var_os("IO_TEST_LOUD").is_none() {
            std::panic::set_hook(Box::new(|_| {}));
        }
    }
    fn io(kind: &str, line: &str) -> String {
        let args: Vec<&str> = line.split(' ').collect();
        run_io::<TMsg>(kind, &args)
    }
    fn specs(line: &str) -> Vec<Spec> {
        let toks: Vec<&str> = line.split(' ').collect();
        parse_inits(&toks).unwrap()
    }
    const TWO: &str = "01000000020000000300000004000000";

    #[test]
    fn watchdog_payload() {
        quiet();
        let p = catch_unwind(|| panic_any(WATCHDOG)).unwrap_err();
        assert!(is_watchdog(&p));
        let p = catch_unwind(|| panic!("WATCHDOG")).unwrap_err();
        assert!(is_watchdog(&p));
        let p = catch_unwind(|| panic!("other")).unwrap_err();
        assert!(!is_watchdog(&p));
    }

    #[test]
    fn round_trip() {
        quiet();
        let inits = "| (seq (i 1) (i 2)) | (seq (i 3) (i 4))";
        let want = format!("s=ok;ok sink={} calls=", TWO);
        assert_eq!(io("send", &format!("8 - {}", inits)), format!("{}2", want));
        assert_eq!(io("send", &format!("8 a1,a2,a3,a1,a1,a5 {}", inits)), format!("{}7", want));
        assert_eq!(
            io("asend", &format!("8 a3,p,a100 fp {}", inits)),
            format!("s=ok[w3.wp.w5.fp.fo];ok[w8.fo] sink={} calls=4 polls=6", TWO)
        );
        let r = "r=msg:(n0 0x1 0x2);msg:(n0 0x3 0x4);closed calls=";
        assert_eq!(io("recv", &format!("8 {} - 3", TWO)), format!("{}2", r));
        assert_eq!(io("recv", &format!("8 {} d1,d1,d2,d3,d1,d7,d1 3", TWO)), format!("{}8", r));
        assert_eq!(io("arecv", &format!("8 {} p,d3,p,p,d100 3", TWO)), format!("{}6 polls=6", r));
    }

    #[test]
    fn recv_directives() {
        quiet();
        assert_eq!(
            io("recv", &format!("8 {} d3,eInterrupted,z,eWouldBlock 6", TWO)),
            "r=read:Interrupted;closed;read:WouldBlock;msg:(n0 0x1 0x2);msg:(n0 0x3 0x4);closed calls=6"
        );
        // max_msg_len below MIN_SIZE: the buffer is 2 * MIN_SIZE = 16 bytes, both messages arrive at once
        assert_eq!(io("recv", &format!("4 {} - 3", TWO)), "r=msg:(n0 0x1 0x2);msg:(n0 0x3 0x4);closed calls=2");
        // a buffer of 16 bytes: the third message arrives after the first two were taken out
        assert_eq!(
            io("recv", &format!("8 {}0500000006000000 - 4", TWO)),
            "r=msg:(n0 0x1 0x2);msg:(n0 0x3 0x4);msg:(n0 0x5 0x6);closed calls=3"
        );
        assert_eq!(io("recv", "8 0100000002 - 2"), "r=closed;closed calls=3");
        assert_eq!(io("recv", "8 - - 0"), "r= calls=0");
        assert!(io("recv", "8 - p 1").starts_with("HARNESS-ERROR"));
    }

    #[test]
    fn send_directives() {
        quiet();
        let inits = "| (seq (i 1) (i 2)) | (seq (i 3) (i 4)) | (seq (i 5) (i 6))";
        assert_eq!(
            io("send", &format!("8 z,eOther,a3,eTimedOut {}", inits)),
            "s=io:BrokenPipe;io:Other;io:TimedOut sink=050000 calls=4"
        );
        // a partial message poisons the sender: the next send panics on the assert
        assert_eq!(io("send", &format!("8 a3,z {}", inits)), "s=io:BrokenPipe;panic;panic sink=010000 calls=2");
        assert_eq!(
            io("asend", &format!("8 a3,p,z feOther {}", inits)),
            "s=io:BrokenPipe[w3.wp.wz];panic[];panic[] sink=010000 calls=3 polls=7"
        );
        assert_eq!(
            io("asend", &format!("8 - feOther,fp {}", inits)),
            format!("s=io:Other[w8.fe];ok[w8.fp.fo];ok[w8.fo] sink=0100000002000000{}0500000006000000 calls=3 polls=7", &TWO[16..])
        );
    }

    #[test]
    fn watchdogs() {
        quiet();
        let d1: VecDeque<Dir> = (0..8).map(|_| Dir::Data(1)).collect();
        assert_eq!(
            recv_case::<TMsg>(Cap::MaxMsgLen(8), hex_to_bytes(TWO), d1.clone(), 3, 2, false),
            "r=hang calls=3"
        );
        assert_eq!(
            recv_case::<TMsg>(Cap::MaxMsgLen(8), hex_to_bytes(TWO), d1.clone(), 3, 2, true),
            "r=hang calls=3 polls=1"
        );
        let p: VecDeque<Dir> = (0..8).map(|_| Dir::Pending).collect();
        assert_eq!(
            recv_case::<TMsg>(Cap::MaxMsgLen(8), hex_to_bytes(TWO), p.clone(), 3, 2, true),
            "r=hang calls=2 polls=2"
        );
        let sp = specs("| (seq (i 1) (i 2)) | (seq (i 3) (i 4))");
        assert_eq!(send_case::<TMsg>(8, d1.clone(), &sp, 2), "s=hang sink=0100 calls=3");
        assert_eq!(
            asend_case::<TMsg>(8, d1.clone(), VecDeque::new(), &sp, 2),
            "s=hang[w1.w1] sink=0100 calls=3 polls=2"
        );
        assert_eq!(
            asend_case::<TMsg>(8, p.clone(), VecDeque::new(), &sp, 3),
            "s=hang[wp.wp] sink=- calls=2 polls=3"
        );
    }

    #[test]
    fn sys() {
        quiet();
        let inits = "| (seq (i 1) (i 2)) | (seq (i 3) (i 4))";
        let all = "delivered=(n0 0x1 0x2);(n0 0x3 0x4) recv_end=closed send_end=ok polls=";
        assert_eq!(io("sys", &format!("8 100 - {}", inits)), format!("{}2", all));
        assert_eq!(io("sys", &format!("8 100 sSrR {}", inits)), format!("{}4", all));
        // every S moves 4 bytes into the ring, every R takes them out; the 4th S ends the sender, the 4th R sees the close
        assert_eq!(io("sys", &format!("8 4 - {}", inits)), format!("{}8", all));
        for cap in 1..=5 {
            for sch in ["-", "SSSS", "RRRR", "srsrsr", "rRsSrRsS", "ssrrSR"] {
                let r = io("sys", &format!("8 {} {} {}", cap, sch, inits));
                assert!(r.starts_with(all), "{} {}: {}", cap, sch, r);
            }
        }
        assert_eq!(io("sys", "8 3 SR"), "delivered= recv_end=closed send_end=ok polls=2");
        let sp = specs(inits);
        // budget of the tail used up
        assert_eq!(
            sys_case::<TMsg>(8, 1, &['S', 'R'], &sp, 4, 1000),
            "delivered= recv_end=running send_end=running polls=6"
        );
        // the ring's own watchdog
        assert_eq!(
            sys_case::<TMsg>(8, 1, &[], &sp, 1000, 3),
            "delivered= recv_end=hang send_end=hang polls=3"
        );
    }
}
