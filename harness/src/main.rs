//! Driver: reads case lines (the same the model runner reads), runs them against the real
//! library built from /repo, prints one canonical result line per case.
#![allow(clippy::all)]

pub mod probe;
#[allow(warnings)]
mod shapes_gen;
mod io_suite;
mod portable_suite;

use probe::*;
use std::io::{BufRead, Write};

static CASE_NO: std::sync::atomic::AtomicU64 = std::sync::atomic::AtomicU64::new(0);

fn main() {
    // panics are outcomes here, not diagnostics
    std::panic::set_hook(Box::new(|_| {}));
    let args: Vec<String> = std::env::args().collect();
    if args.len() > 1 && args[1] == "--shapes" {
        for s in shapes_gen::SHAPES {
            println!("{}", s);
        }
        return;
    }
    // per-case watchdog: a change to the library that makes one case run (almost) for ever must not
    // stall the whole check; the process exits with 124 and the driver attributes the hang to the
    // case announced last and re-runs the rest in a fresh process
    let limit: u64 = std::env::var("VERIF_CASE_TIMEOUT").ok().and_then(|v| v.parse().ok()).unwrap_or(30);
    if limit > 0 {
        std::thread::spawn(move || {
            let mut last = CASE_NO.load(std::sync::atomic::Ordering::SeqCst);
            let mut since = std::time::Instant::now();
            loop {
                std::thread::sleep(std::time::Duration::from_millis(250));
                let now = CASE_NO.load(std::sync::atomic::Ordering::SeqCst);
                if now != last {
                    last = now;
                    since = std::time::Instant::now();
                } else if now % 2 == 1 && since.elapsed().as_secs() >= limit {
                    std::process::exit(124);
                }
            }
        });
    }
    let stdin = std::io::stdin();
    let stdout = std::io::stdout();
    let mut out = std::io::BufWriter::new(stdout.lock());
    for line in stdin.lock().lines() {
        let line = line.unwrap();
        let toks: Vec<&str> = line.split(' ').collect();
        if toks.is_empty() || toks[0].is_empty() || toks[0] == "T" {
            continue;
        }
        let op = toks[0];
        let cid = toks[1];
        // announce the case first so that a hang or abort can be attributed
        writeln!(out, "#start {}", cid).unwrap();
        out.flush().unwrap();
        CASE_NO.fetch_add(1, std::sync::atomic::Ordering::SeqCst);
        let res = match op {
            "L" | "V" | "M" | "E" | "A" | "D" => {
                let tid = toks[2];
                match shapes_gen::ops(tid) {
                    None => format!("HARNESS-ERROR unknown shape {}", tid),
                    Some(o) => match op {
                        "L" => o.layout(),
                        _ => {
                            let off: usize = toks[3].parse().unwrap();
                            let bytes = hex_to_bytes(toks[4]);
                            match op {
                                "V" => o.validate(off, &bytes),
                                "M" => o.map(off, &bytes),
                                "D" => o.default(off, &bytes),
                                _ => {
                                    let st = tokenize(&toks[5..].join(" "));
                                    let mut p = 0;
                                    let spec = parse_spec(&st, &mut p);
                                    if op == "E" {
                                        o.emplace(off, &bytes, &spec)
                                    } else {
                                        o.assign(off, &bytes, &spec)
                                    }
                                }
                            }
                        }
                    },
                }
            }
            "H" => {
                // H <cid> <shape> <off> <hex> | <init> | <op> | <op> ...
                match shapes_gen::ops(toks[2]) {
                    None => format!("HARNESS-ERROR unknown shape {}", toks[2]),
                    Some(o) => {
                        let off: usize = toks[3].parse().unwrap();
                        let bytes = hex_to_bytes(toks[4]);
                        let rest = toks[5..].join(" ");
                        let parts: Vec<&str> = rest.split('|').map(|s| s.trim()).filter(|s| !s.is_empty()).collect();
                        let st = tokenize(parts[0]);
                        let mut p = 0;
                        let init = parse_spec(&st, &mut p);
                        let ops: Vec<HOp> = parts[1..]
                            .iter()
                            .map(|t| {
                                let st = tokenize(t);
                                let mut p = 0;
                                parse_hop(&st, &mut p)
                            })
                            .collect();
                        o.hist(off, &bytes, &init, &ops)
                    }
                }
            }
            "P" => portable_suite::run_line(&toks[2..]),
            "IO" => {
                if toks.len() < 4 {
                    "HARNESS-ERROR IO needs a kind and a shape".to_string()
                } else {
                    match shapes_gen::ops(toks[3]) {
                        None => format!("HARNESS-ERROR unknown shape {}", toks[3]),
                        Some(o) => o.io(toks[2], &toks[4..]),
                    }
                }
            }
            other => format!("HARNESS-ERROR unknown op {}", other),
        };
        writeln!(out, "{} {}", cid, res).unwrap();
        out.flush().unwrap();
        // even = between cases (waiting for input does not count)
        CASE_NO.fetch_add(1, std::sync::atomic::Ordering::SeqCst);
    }
}
