// negative program of C17: portable = true on an unsized enum with a non-portable field in a variant
use flatty::{flat, portable::le, prelude::*, FlatVec};

#[flat(sized = false, portable = true)]
enum NativeVariant {
    A,
    B(le::U16, FlatVec<u16, u16>),
}

fn is_portable<T: flatty::Portable + ?Sized>() {}

fn main() {
    is_portable::<NativeVariant>();
    println!("align={} min_size={}", <NativeVariant as FlatBase>::ALIGN, <NativeVariant as FlatBase>::MIN_SIZE);
}
