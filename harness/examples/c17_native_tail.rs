// negative program of C17: portable = true on an unsized struct whose LAST field is not portable
// (native u32 elements and length) must not be accepted.
use flatty::{flat, portable::le, prelude::*, FlatVec};

#[flat(sized = false, portable = true)]
struct NativeTail {
    id: le::U16,
    kind: u8,
    payload: FlatVec<u32, u32>,
}

fn is_portable<T: flatty::Portable + ?Sized>() {}

fn main() {
    is_portable::<NativeTail>();
    println!("align={} min_size={}", <NativeTail as FlatBase>::ALIGN, <NativeTail as FlatBase>::MIN_SIZE);
}
