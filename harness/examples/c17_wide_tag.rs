// negative program of C17: a portable enum with a tag wider than one byte must not be accepted
// (if it is, the type claims `Portable` although its tag has native alignment and byte order).
use flatty::{flat, portable::le, prelude::*};

#[flat(portable = true, tag_type = "u16")]
enum WideTag {
    A,
    B(le::U32),
}

fn is_portable<T: flatty::Portable + ?Sized>() {}

fn main() {
    is_portable::<WideTag>();
    println!("align={} size={}", <WideTag as FlatBase>::ALIGN, <WideTag as FlatSized>::SIZE);
}
