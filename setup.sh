#!/bin/sh
# Run once after a fresh restore, offline: builds the Coq development (full .vo build), the extracted
# model runner and the harness against /repo.  Everything comes from files on disk.
set -e
cd "$(dirname "$0")"
export CARGO_NET_OFFLINE=true
# the arithmetic kernel translated from /repo's source (coq/Generated/Kernel.v) comes first
python3 -c "import sys; sys.path.insert(0, 'tools'); import translate; print('kernel:', translate.write())"
( cd coq && coq_makefile -f _CoqProject -o Makefile >/dev/null && timeout 3000 make -j16 >/dev/null )
python3 - <<'PY'
import sys, os
sys.path.insert(0, 'tools'); sys.path.insert(0, 'gen')
import vlib, suites
vlib.build_runner()
vlib.build_harness(suites.type_shapes('quick', 1))
print('setup ok')
PY
